// ---- merge_types: types, trait and shims for unit `merge` (src/change.rs, src/merge.rs, src/diff.rs) ----
// Everything marked ASSUMED is part of the trusted base of C18 (std / jiff / Rust-semantics facts that Verus
// does not know); everything else is either copied from /repo by a `type` directive or is spec vocabulary.
//@@ include apath_stub.rs
//@@ include merge_spec.rs

// ---- std equality facts (ASSUMED) ------------------------------------------------------------------------
// std: `impl PartialEq for str` / `for String` compare the contents.  vstd specifies `String == String` called
// directly, but not through `&String`, `Option<String>`, `Option<&str>` (those go through `obeys_eq_spec`).
#[verifier::external_body]
proof fn axiom_str_eq()
    ensures
        <str as PartialEqSpec<str>>::obeys_eq_spec(),
        forall|a: &str, b: &str| #[trigger] PartialEqSpec::eq_spec(a, b) == (a@ == b@),
        <String as PartialEqSpec<String>>::obeys_eq_spec(),
        forall|a: String, b: String| #[trigger] PartialEqSpec::eq_spec(&a, &b) == (a@ == b@),
{ }

spec fn ov(o: Option<&str>) -> Option<Seq<char>> { match o { Some(s) => Some(s@), None => None } }
spec fn osv(o: Option<String>) -> Option<Seq<char>> { match o { Some(s) => Some(s@), None => None } }

// ---- Apath: what `debug_assert_eq!(a.apath(), b.apath())` needs (Debug for the message, == on the string) --
#[verifier::external]
impl std::fmt::Debug for Apath {
    fn fmt(&self, _f: &mut std::fmt::Formatter<'_>) -> std::fmt::Result { Ok(()) }
}
// ASSUMED: src/apath.rs derives PartialEq on `struct Apath(String)`: equality of the strings.
impl PartialEqSpecImpl for Apath {
    closed spec fn obeys_eq_spec() -> bool { true }
    closed spec fn eq_spec(&self, other: &Self) -> bool { self@ == other@ }
}
impl PartialEq for Apath {
    #[verifier::external_body]
    fn eq(&self, other: &Self) -> (r: bool) { self.0 == other.0 }
}
proof fn lemma_apath_eq_spec(a: Apath, b: Apath)
    ensures <Apath as PartialEqSpec<Apath>>::obeys_eq_spec(), PartialEqSpec::eq_spec(&a, &b) == (a@ == b@),
{ }

// `debug_assert_eq!` / `assert_eq!` expand to a call of this function on the failing path: it must be
// unreachable ("the assertion cannot fail" is a proof obligation, DESIGN section 3 last paragraph).
#[verifier::external_type_specification]
pub struct ExAssertKind(core::panicking::AssertKind);
pub assume_specification<T, U> [core::panicking::assert_failed] (_0: core::panicking::AssertKind, _1: &T, _2: &U, _3: std::option::Option<std::fmt::Arguments<'_>>) -> !
    where
        T: std::marker::MetaSized + std::fmt::Debug + ?Sized,
        U: std::marker::MetaSized + std::fmt::Debug + ?Sized,
    requires false;

// ---- jiff::Timestamp (R3 shim, jiff 0.2): an instant, viewed as integer nanoseconds since the epoch ---------
// ASSUMED: `Timestamp: Copy`, and `==` on timestamps is equality of the instant.
#[verifier::external_body]
#[derive(Clone, Copy)]
pub struct Timestamp { nanos: i128 }
impl Timestamp {
    pub uninterp spec fn nanos(&self) -> int;

    // jiff accessors that COARSEN an instant (whole seconds / milliseconds / microseconds, truncated toward zero).
    // Not used by the pinned tree; present so that an edit comparing times at a coarser grain than the index stores
    // is decided by the contract (C18: a report is Unchanged iff NO listed difference) instead of leaving the unit
    // unposable.
    #[verifier::external_body]
    pub fn as_second(self) -> (r: i64)
        ensures r as int == (if self.nanos() >= 0 { self.nanos() / 1_000_000_000 } else { -((-self.nanos()) / 1_000_000_000) }),
    { unimplemented!() }
    #[verifier::external_body]
    pub fn as_millisecond(self) -> (r: i64)
        ensures r as int == (if self.nanos() >= 0 { self.nanos() / 1_000_000 } else { -((-self.nanos()) / 1_000_000) }),
    { unimplemented!() }
    #[verifier::external_body]
    pub fn as_microsecond(self) -> (r: i64)
        ensures r as int == (if self.nanos() >= 0 { self.nanos() / 1_000 } else { -((-self.nanos()) / 1_000) }),
    { unimplemented!() }
    #[verifier::external_body]
    pub fn as_nanosecond(self) -> (r: i128)
        ensures r as int == self.nanos(),
    { unimplemented!() }
    #[verifier::external_body]
    pub fn subsec_nanosecond(self) -> (r: i32)
        ensures r as int == (if self.nanos() >= 0 { self.nanos() % 1_000_000_000 } else { -((-self.nanos()) % 1_000_000_000) }),
    { unimplemented!() }
}
impl PartialEqSpecImpl for Timestamp {
    open spec fn obeys_eq_spec() -> bool { true }
    open spec fn eq_spec(&self, other: &Self) -> bool { self.nanos() == other.nanos() }
}
impl PartialEq for Timestamp {
    #[verifier::external_body]
    fn eq(&self, other: &Self) -> (r: bool) { self.nanos == other.nanos }
}

// ---- Kind, UnixMode, Owner (copied, R11) ----------------------------------------------------------------
//@@ type src/kind.rs | enum Kind derive=Clone,Copy,PartialEq,Eq,Structural
//@@ end

//@@ type src/unix_mode.rs | struct UnixMode derive=Clone,Copy
//@@ end
// src/unix_mode.rs implements PartialEq by hand; the real `eq` body is verified against this spec in the unit.
impl PartialEqSpecImpl for UnixMode {
    closed spec fn obeys_eq_spec() -> bool { true }
    closed spec fn eq_spec(&self, other: &Self) -> bool { self.0 == other.0 }
}
impl UnixMode {
    spec fn view(&self) -> Option<u32> { self.0 }
}
proof fn lemma_unix_mode_eq_spec(a: UnixMode, b: UnixMode)
    ensures <UnixMode as PartialEqSpec<UnixMode>>::obeys_eq_spec(), PartialEqSpec::eq_spec(&a, &b) == (a@ == b@),
{ }

//@@ type src/owner.rs | struct Owner
//@@ end
impl Owner {
    pub closed spec fn user_v(&self) -> Option<Seq<char>> { osv(self.user) }
    pub closed spec fn group_v(&self) -> Option<Seq<char>> { osv(self.group) }
}
// ASSUMED: src/owner.rs derives PartialEq and Clone on `struct Owner { user: Option<String>, group: Option<String> }`:
// field-wise equality of the names; clone copies both names.
impl PartialEqSpecImpl for Owner {
    closed spec fn obeys_eq_spec() -> bool { true }
    closed spec fn eq_spec(&self, other: &Self) -> bool {
        self.user_v() == other.user_v() && self.group_v() == other.group_v()
    }
}
impl PartialEq for Owner {
    #[verifier::external_body]
    fn eq(&self, other: &Self) -> (r: bool) { self.user == other.user && self.group == other.group }
}
proof fn lemma_owner_eq_spec(a: Owner, b: Owner)
    ensures <Owner as PartialEqSpec<Owner>>::obeys_eq_spec(),
        PartialEqSpec::eq_spec(&a, &b) == (a.user_v() == b.user_v() && a.group_v() == b.group_v()),
{ }
impl Clone for Owner {
    #[verifier::external_body]
    fn clone(&self) -> (r: Self)
        ensures r.user_v() == self.user_v(), r.group_v() == self.group_v(),
    { Owner { user: self.user.clone(), group: self.group.clone() } }
}

// ---- EntryTrait (src/entry.rs), copied with a spec twin per method (R11) --------------------------------------
// Dropped: the `Debug` supertrait, `format_ls` (formats text), `listing_json` (serde).  The accessors are pure.
// (`IndexEntry::mtime`/`size` can panic on decoded values: those no-panic obligations belong to unit timeconv.)
trait EntryTrait {
    spec fn s_apath(&self) -> Apath;
    spec fn s_kind(&self) -> Kind;
    spec fn s_mtime(&self) -> Timestamp;
    spec fn s_size(&self) -> Option<u64>;
    spec fn s_target(&self) -> Option<Seq<char>>;
    spec fn s_unix_mode(&self) -> UnixMode;
    spec fn s_owner(&self) -> Owner;

    fn apath(&self) -> (r: &Apath) ensures *r == self.s_apath();
    fn kind(&self) -> (r: Kind) ensures r == self.s_kind();
    fn mtime(&self) -> (r: Timestamp) ensures r == self.s_mtime();
    fn size(&self) -> (r: Option<u64>) ensures r == self.s_size();
    fn symlink_target(&self) -> (r: Option<&str>) ensures ov(r) == self.s_target();
    fn unix_mode(&self) -> (r: UnixMode) ensures r == self.s_unix_mode();
    fn owner(&self) -> (r: &Owner) ensures *r == self.s_owner();
}

// the abstract entry an implementor denotes
spec fn ev<E: EntryTrait + ?Sized>(e: &E) -> EntryView {
    EntryView {
        apath: e.s_apath()@,
        kind: e.s_kind(),
        mtime: e.s_mtime().nanos(),
        size: e.s_size(),
        target: e.s_target(),
        mode: e.s_unix_mode()@,
        user: e.s_owner().user_v(),
        group: e.s_owner().group_v(),
    }
}

// ASSUMED (Rust semantics): coercing `&T` to `&dyn EntryTrait` yields an object whose methods are T's methods.
// Verus keeps the unsizing coercion uninterpreted, so the spec twins of the trait object are linked to those of
// the concrete value by this axiom (used where diff_metadata / to_entry_change pass `&AE` to a `&dyn` helper).
spec fn as_dyn<E: EntryTrait>(e: &E) -> &dyn EntryTrait { e }

#[verifier::external_body]
proof fn axiom_dyn_same_entry<E: EntryTrait>(e: &E)
    ensures ev(as_dyn(e)) == ev(e),
{ }

// ---- Change, EntryChange, EntryMetadata, KindMetadata (src/change.rs), MatchedEntries (src/merge.rs) ---------
//@@ type src/change.rs | enum Change
//@@ end
//@@ type src/change.rs | enum KindMetadata
//@@ end
//@@ type src/change.rs | struct EntryMetadata
//@@ end
//@@ type src/change.rs | struct EntryChange
//@@ end
//@@ type src/merge.rs | enum MatchedEntries
//@@ end

impl KindMetadata {
    spec fn view(&self) -> KindMetaView {
        match *self {
            KindMetadata::File { size } => KindMetaView::File { size },
            KindMetadata::Dir => KindMetaView::Dir,
            KindMetadata::Symlink { target } => KindMetaView::Symlink { target: target@ },
        }
    }
}
impl EntryMetadata {
    spec fn view(&self) -> MetaView {
        MetaView { kind: self.kind@, mtime: self.mtime.nanos(), user: self.owner.user_v(), group: self.owner.group_v(),
                   mode: self.unix_mode@ }
    }
}
spec fn change_view(c: Change<EntryMetadata>) -> ChangeView {
    match c {
        Change::Unchanged { unchanged } => ChangeView::Unchanged { m: unchanged@ },
        Change::Added { added } => ChangeView::Added { m: added@ },
        Change::Deleted { deleted } => ChangeView::Deleted { m: deleted@ },
        Change::Changed { old, new } => ChangeView::Changed { old: old@, new: new@ },
    }
}
impl EntryChange {
    spec fn view(&self) -> EntryChangeView { EntryChangeView { apath: self.apath@, change: change_view(self.change) } }
}
spec fn mv<AE: EntryTrait, BE: EntryTrait>(m: MatchedEntries<AE, BE>) -> MatchedView {
    match m {
        MatchedEntries::Left(a) => MatchedView::Left(ev(&a)),
        MatchedEntries::Right(b) => MatchedView::Right(ev(&b)),
        MatchedEntries::Both(a, b) => MatchedView::Both(ev(&a), ev(&b)),
    }
}

// ---- the two input streams of MergeTrees (R3 shims) -----------------------------------------------------------
// IndexEntry (src/index/entry.rs) and source::Entry (src/source/entry.rs) are opaque here: the merge only uses
// them through EntryTrait.  Their accessor bodies are not part of this unit.
#[verifier::external_body]
struct IndexEntry { opaque: () }
#[verifier::external_body]
struct SourceEntry { opaque: () }

// ASSUMED: both entry types derive Clone (a clone is the same value).
impl Clone for IndexEntry {
    #[verifier::external_body]
    fn clone(&self) -> (r: Self) ensures r == *self, { unimplemented!() }
}
impl Clone for SourceEntry {
    #[verifier::external_body]
    fn clone(&self) -> (r: Self) ensures r == *self, { unimplemented!() }
}
impl EntryTrait for IndexEntry {
    uninterp spec fn s_apath(&self) -> Apath;
    uninterp spec fn s_kind(&self) -> Kind;
    uninterp spec fn s_mtime(&self) -> Timestamp;
    uninterp spec fn s_size(&self) -> Option<u64>;
    uninterp spec fn s_target(&self) -> Option<Seq<char>>;
    uninterp spec fn s_unix_mode(&self) -> UnixMode;
    uninterp spec fn s_owner(&self) -> Owner;
    #[verifier::external_body] fn apath(&self) -> (r: &Apath) { unimplemented!() }
    #[verifier::external_body] fn kind(&self) -> (r: Kind) { unimplemented!() }
    #[verifier::external_body] fn mtime(&self) -> (r: Timestamp) { unimplemented!() }
    #[verifier::external_body] fn size(&self) -> (r: Option<u64>) { unimplemented!() }
    #[verifier::external_body] fn symlink_target(&self) -> (r: Option<&str>) { unimplemented!() }
    #[verifier::external_body] fn unix_mode(&self) -> (r: UnixMode) { unimplemented!() }
    #[verifier::external_body] fn owner(&self) -> (r: &Owner) { unimplemented!() }
}
impl EntryTrait for SourceEntry {
    uninterp spec fn s_apath(&self) -> Apath;
    uninterp spec fn s_kind(&self) -> Kind;
    uninterp spec fn s_mtime(&self) -> Timestamp;
    uninterp spec fn s_size(&self) -> Option<u64>;
    uninterp spec fn s_target(&self) -> Option<Seq<char>>;
    uninterp spec fn s_unix_mode(&self) -> UnixMode;
    uninterp spec fn s_owner(&self) -> Owner;
    #[verifier::external_body] fn apath(&self) -> (r: &Apath) { unimplemented!() }
    #[verifier::external_body] fn kind(&self) -> (r: Kind) { unimplemented!() }
    #[verifier::external_body] fn mtime(&self) -> (r: Timestamp) { unimplemented!() }
    #[verifier::external_body] fn size(&self) -> (r: Option<u64>) { unimplemented!() }
    #[verifier::external_body] fn symlink_target(&self) -> (r: Option<&str>) { unimplemented!() }
    #[verifier::external_body] fn unix_mode(&self) -> (r: UnixMode) { unimplemented!() }
    #[verifier::external_body] fn owner(&self) -> (r: &Owner) { unimplemented!() }
}

// Stitch (src/index/stitch.rs) and source::Iter (src/source.rs) as sources of entries: `rem()` is the sequence
// still to be yielded; `next()` pops its head, and keeps returning None once it is empty.  That the sequences are
// strictly increasing in apath order is NOT assumed here: it is a precondition of MergeTrees::next (established
// by units stitch (C08) and walk (C11)).
#[verifier::external_body]
struct Stitch { opaque: () }
impl Stitch {
    uninterp spec fn rem(&self) -> Seq<IndexEntry>;

    #[verifier::external_body]
    async fn next(&mut self) -> (r: Option<IndexEntry>)
        ensures
            old(self).rem().len() == 0 ==> r.is_none() && final(self).rem() == old(self).rem(),
            old(self).rem().len() > 0 ==> r == Some(old(self).rem()[0]) && final(self).rem() == old(self).rem().skip(1),
    { unimplemented!() }
}
#[verifier::external_body]
struct SourceIter { opaque: () }
impl SourceIter {
    uninterp spec fn rem(&self) -> Seq<SourceEntry>;

    #[verifier::external_body]
    fn next(&mut self) -> (r: Option<SourceEntry>)
        ensures
            old(self).rem().len() == 0 ==> r.is_none() && final(self).rem() == old(self).rem(),
            old(self).rem().len() > 0 ==> r == Some(old(self).rem()[0]) && final(self).rem() == old(self).rem().skip(1),
    { unimplemented!() }
}


// ---- the lock-step merge of two streams, as a function of the two sequences (C18 / C02 mechanism) --------------
// Both sequences are ordered by path.  The first aligned position is the least path present on either side:
// on both sides when the two heads are the same path, otherwise the side whose head is smaller (or the only
// side left).  Each step consumes exactly the entries it reports.
#[verifier::opaque]
spec fn merge_spec<AE: EntryTrait, BE: EntryTrait>(a: Seq<AE>, b: Seq<BE>) -> Seq<MatchedEntries<AE, BE>>
    decreases a.len() + b.len()
{
    if a.len() == 0 && b.len() == 0 { Seq::empty() }
    else if b.len() == 0 { seq![MatchedEntries::Left(a[0])] + merge_spec(a.skip(1), b) }
    else if a.len() == 0 { seq![MatchedEntries::Right(b[0])] + merge_spec(a, b.skip(1)) }
    else if a[0].s_apath()@ == b[0].s_apath()@ { seq![MatchedEntries::Both(a[0], b[0])] + merge_spec(a.skip(1), b.skip(1)) }
    else if apath_lt(a[0].s_apath(), b[0].s_apath()) { seq![MatchedEntries::Left(a[0])] + merge_spec(a.skip(1), b) }
    else { seq![MatchedEntries::Right(b[0])] + merge_spec(a, b.skip(1)) }
}

spec fn increasing<E: EntryTrait>(s: Seq<E>) -> bool {
    forall|i: int, j: int| 0 <= i < j < s.len() ==> apath_lt(#[trigger] s[i].s_apath(), #[trigger] s[j].s_apath())
}
spec fn all_meta_ok<E: EntryTrait>(s: Seq<E>) -> bool {
    forall|i: int| 0 <= i < s.len() ==> meta_ok(ev(&#[trigger] s[i]))
}
spec fn mvs<AE: EntryTrait, BE: EntryTrait>(ms: Seq<MatchedEntries<AE, BE>>) -> Seq<MatchedView> {
    ms.map_values(|m: MatchedEntries<AE, BE>| mv(m))
}
spec fn peeked<E>(o: Option<E>) -> Seq<E> { match o { Some(e) => seq![e], None => Seq::empty() } }

proof fn lemma_peeked<E>()
    ensures
        forall|s: Seq<E>| #[trigger] (peeked(None::<E>) + s) == s,
        forall|e: E, s: Seq<E>| (#[trigger] (peeked(Some(e)) + s)).len() > 0 && (peeked(Some(e)) + s)[0] == e
            && (peeked(Some(e)) + s).skip(1) == s,
{
    assert forall|s: Seq<E>| #[trigger] (peeked(None::<E>) + s) == s by { assert(peeked(None::<E>) + s =~= s); }
    assert forall|e: E, s: Seq<E>| (#[trigger] (peeked(Some(e)) + s)).len() > 0 && (peeked(Some(e)) + s)[0] == e
            && (peeked(Some(e)) + s).skip(1) == s by { assert((peeked(Some(e)) + s).skip(1) =~= s); }
}
proof fn lemma_increasing_tail<E: EntryTrait>(s: Seq<E>)
    requires increasing(s),
    ensures s.len() > 0 ==> increasing(s.skip(1)),
{
    if s.len() > 0 {
        let t = s.skip(1);
        assert forall|i: int, j: int| 0 <= i < j < t.len() implies apath_lt(#[trigger] t[i].s_apath(), #[trigger] t[j].s_apath()) by {
            assert(t[i] == s[i + 1] && t[j] == s[j + 1]);
        }
    }
}

//@@ type src/merge.rs | struct MergeTrees
//@ rewrite
source::Iter ==> SourceIter
source::Entry ==> SourceEntry
//@@ end
impl MergeTrees {
    // everything still to come from each side: the peeked entry, then the rest of the stream
    spec fn a_all(&self) -> Seq<IndexEntry> { peeked(self.next_a) + self.a.rem() }
    spec fn b_all(&self) -> Seq<SourceEntry> { peeked(self.next_b) + self.b.rem() }
    spec fn wf(&self) -> bool { increasing(self.a_all()) && increasing(self.b_all()) }
    spec fn merged(&self) -> Seq<MatchedEntries<IndexEntry, SourceEntry>> { merge_spec(self.a_all(), self.b_all()) }
}

// one step of the report stream
proof fn lemma_reports_step<AE: EntryTrait, BE: EntryTrait>(m: MatchedEntries<AE, BE>, rest: Seq<MatchedEntries<AE, BE>>, inc: bool)
    ensures
        diff_reports(mvs(seq![m] + rest), inc) ==
            (if inc || !(report_of(mv(m)).change is Unchanged) { seq![report_of(mv(m))] + diff_reports(mvs(rest), inc) }
             else { diff_reports(mvs(rest), inc) }),
{
    let ms = mvs(seq![m] + rest);
    assert(ms[0] == mv(m));
    assert(ms.skip(1) =~= mvs(rest));
}
proof fn lemma_all_meta_ok_tail<E: EntryTrait>(s: Seq<E>)
    requires all_meta_ok(s), s.len() > 0,
    ensures all_meta_ok(s.skip(1)), meta_ok(ev(&s[0])),
{
    let t = s.skip(1);
    assert forall|i: int| 0 <= i < t.len() implies meta_ok(ev(&#[trigger] t[i])) by { assert(t[i] == s[i + 1]); }
}

//@@ type src/diff.rs | struct DiffOptions
//@@ end
//@@ type src/diff.rs | struct Diff
//@@ end

// Exclude (src/excludes.rs) is carried in DiffOptions but not used by Diff::next.
#[verifier::external_body]
struct Exclude { opaque: () }
