// ---- sourcemeta_types: the real declarations of src/source.rs that unit `sourcemeta` works on (R11).  Kind, KindMeta,
// Owner, UnixMode, MODE_BITS and source::Entry come from timeconv_types.rs (included by the unit). ----

//@@ type src/source.rs | struct SourceTree
//@@ end

//@@ type src/stats.rs | struct SourceIterStats derive=Default
//@@ end

// the debug-build order checker (src/apath.rs)
//@@ type src/apath.rs | struct CheckOrder
//@@ end

//@@ type src/apath.rs | struct DebugCheckOrder
//@@ end

//@@ type src/source.rs | struct Iter
//@ rewrite
apath::DebugCheckOrder ==> DebugCheckOrder
//@@ end
