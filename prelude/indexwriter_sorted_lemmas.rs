// ---- indexwriter_sorted_lemmas: sorting a set of entries with distinct paths (pure spec math, no assumptions) ----
// * a permutation that is sorted (<=) under the documented order, of entries with pairwise distinct paths, is
//   strictly increasing and keeps every per-entry property;
// * a strictly increasing arrangement of a given multiset of entries is UNIQUE (C17: the unstable sort cannot leak
//   nondeterminism; the bytes of a hunk are a function of the SET of queued entries).
//@@ include indexwriter_spec.rs

#[verifier::opaque]
spec fn sorted_le(s: Seq<IndexEntry>) -> bool {
    forall|i: int, j: int| 0 <= i < j < s.len()
        ==> doc_cmp((#[trigger] s[i]).apath.comps(), (#[trigger] s[j]).apath.comps()) != Ordering::Greater
}

spec fn is_sorted_perm(s: Seq<IndexEntry>, of: Seq<IndexEntry>) -> bool {
    s.to_multiset() == of.to_multiset() && strictly_increasing(s)
}

// THE sorted arrangement of a set of entries (well defined by lemma_sorted_perm_unique)
spec fn sorted_of(es: Seq<IndexEntry>) -> Seq<IndexEntry> {
    choose|s: Seq<IndexEntry>| is_sorted_perm(s, es)
}

proof fn lemma_apath_lt_irrefl(a: Apath)
    ensures !apath_lt(a, a),
{
    lemma_split_nonempty(bytes_of(a@), SLASH);
    lemma_doc_eq(a.comps(), a.comps());
}

proof fn lemma_apath_lt_trans(a: Apath, b: Apath, c: Apath)
    requires apath_lt(a, b), apath_lt(b, c),
    ensures apath_lt(a, c),
{
    lemma_split_nonempty(bytes_of(a@), SLASH);
    lemma_split_nonempty(bytes_of(b@), SLASH);
    lemma_split_nonempty(bytes_of(c@), SLASH);
    lemma_doc_trans(a.comps(), b.comps(), c.comps());
}

proof fn lemma_distinct_gives_no_duplicates(es: Seq<IndexEntry>)
    requires distinct_apaths(es),
    ensures es.no_duplicates(),
{
    reveal(distinct_apaths);
    assert forall|i: int, j: int| 0 <= i < es.len() && 0 <= j < es.len() && i != j implies es[i] != es[j] by {
        assert(es[i].apath@ != es[j].apath@);
    }
}

// every element of a permutation is an element of the original
proof fn lemma_perm_member(e0: Seq<IndexEntry>, e: Seq<IndexEntry>, i: int) -> (k: int)
    requires e.to_multiset() == e0.to_multiset(), 0 <= i < e.len(),
    ensures 0 <= k < e0.len(), e0[k] == e[i],
{
    e.to_multiset_ensures();
    e0.to_multiset_ensures();
    assert(e.contains(e[i]));
    assert(e.to_multiset().count(e[i]) > 0);
    assert(e0.to_multiset().count(e[i]) > 0);
    assert(e0.contains(e[i]));
    choose|k: int| 0 <= k < e0.len() && e0[k] == e[i]
}

proof fn lemma_sorted_perm_facts(e0: Seq<IndexEntry>, e: Seq<IndexEntry>, last: Option<Apath>)
    requires
        distinct_apaths(e0),
        entries_ok(e0),
        all_after(last, e0),
        e.to_multiset() == e0.to_multiset(),
        sorted_le(e),
    ensures
        e.len() == e0.len(),
        entries_ok(e),
        all_after(last, e),
        distinct_apaths(e),
        strictly_increasing(e),
        e == sorted_of(e0),
        // what the two order checks of finish_hunk need
        e.len() > 0 && last is Some ==> apath_lt(last.unwrap(), e[0].apath),
        e.len() > 1 ==> apath_lt(e[0].apath, e.last().apath),
{
    reveal(distinct_apaths);
    reveal(entries_ok);
    reveal(all_after);
    reveal(strictly_increasing);
    reveal(sorted_le);
    e.to_multiset_ensures();
    e0.to_multiset_ensures();
    lemma_distinct_gives_no_duplicates(e0);
    e0.lemma_multiset_has_no_duplicates();
    e.lemma_multiset_has_no_duplicates_conv();
    assert(e.no_duplicates());
    assert forall|i: int| 0 <= i < e.len() implies entry_ok(#[trigger] e[i])
        && (last is Some ==> apath_lt(last.unwrap(), e[i].apath)) by {
        let k = lemma_perm_member(e0, e, i);
        assert(entry_ok(e0[k]));
    }
    assert forall|i: int, j: int| 0 <= i < e.len() && 0 <= j < e.len() && i != j
        implies (#[trigger] e[i]).apath@ != (#[trigger] e[j]).apath@ by {
        let k = lemma_perm_member(e0, e, i);
        let m = lemma_perm_member(e0, e, j);
        assert(e[i] != e[j]);
        assert(k != m);
        assert(e0[k].apath@ != e0[m].apath@);
    }
    assert forall|i: int, j: int| 0 <= i < j < e.len() implies apath_lt(#[trigger] e[i].apath, #[trigger] e[j].apath) by {
        assert(e[i].apath@ != e[j].apath@);
        lemma_apath_cmp_equal_iff_same_string(e[i].apath@, e[j].apath@);
    }
    assert(is_sorted_perm(e, e0));
    let s0 = sorted_of(e0);
    assert(is_sorted_perm(s0, e0));
    lemma_sorted_perm_unique(e, s0);
}

proof fn lemma_sorted_perm_unique(s: Seq<IndexEntry>, t: Seq<IndexEntry>)
    requires
        strictly_increasing(s),
        strictly_increasing(t),
        s.to_multiset() == t.to_multiset(),
    ensures
        s == t,
    decreases s.len()
{
    reveal(strictly_increasing);
    s.to_multiset_ensures();
    t.to_multiset_ensures();
    if s.len() == 0 {
        assert(s =~= t);
    } else {
        let x = s.last();
        let y = t.last();
        let k = lemma_perm_member(t, s, s.len() - 1);
        let m = lemma_perm_member(s, t, t.len() - 1);
        // x == t[k], y == s[m]
        if k < t.len() - 1 {
            assert(apath_lt(t[k].apath, t[t.len() - 1].apath));
            if m < s.len() - 1 {
                assert(apath_lt(s[m].apath, s[s.len() - 1].apath));
                lemma_apath_lt_trans(x.apath, y.apath, x.apath);
            }
            lemma_apath_lt_irrefl(x.apath);
            assert(false);
        }
        assert(x == y);
        let sd = s.drop_last();
        let td = t.drop_last();
        assert(s =~= sd.push(x));
        assert(t =~= td.push(x));
        sd.to_multiset_ensures();
        td.to_multiset_ensures();
        assert(sd.to_multiset().insert(x) =~= s.to_multiset());
        assert(td.to_multiset().insert(x) =~= t.to_multiset());
        assert(sd.to_multiset() =~= sd.to_multiset().insert(x).remove(x));
        assert(td.to_multiset() =~= td.to_multiset().insert(x).remove(x));
        assert forall|i: int, j: int| 0 <= i < j < sd.len() implies apath_lt(#[trigger] sd[i].apath, #[trigger] sd[j].apath) by {
            assert(apath_lt(s[i].apath, s[j].apath));
        }
        assert forall|i: int, j: int| 0 <= i < j < td.len() implies apath_lt(#[trigger] td[i].apath, #[trigger] td[j].apath) by {
            assert(apath_lt(t[i].apath, t[j].apath));
        }
        lemma_sorted_perm_unique(sd, td);
    }
}

// ---- small facts used by push_entry / append_entries / finish_hunk (the predicates are opaque in exec code) ----

proof fn lemma_empty_queue(last: Option<Apath>)
    ensures
        entries_ok(Seq::<IndexEntry>::empty()),
        all_after(last, Seq::<IndexEntry>::empty()),
        distinct_apaths(Seq::<IndexEntry>::empty()),
{
    reveal(entries_ok);
    reveal(all_after);
    reveal(distinct_apaths);
}

proof fn lemma_push_queue(es: Seq<IndexEntry>, e: IndexEntry, last: Option<Apath>)
    requires
        entries_ok(es), all_after(last, es), distinct_apaths(es),
        entry_ok(e),
        last is Some ==> apath_lt(last.unwrap(), e.apath),
        forall|i: int| 0 <= i < es.len() ==> (#[trigger] es[i]).apath@ != e.apath@,
    ensures
        entries_ok(es.push(e)), all_after(last, es.push(e)), distinct_apaths(es.push(e)),
{
    reveal(entries_ok);
    reveal(all_after);
    reveal(distinct_apaths);
}

proof fn lemma_append_queue(es: Seq<IndexEntry>, more: Seq<IndexEntry>, last: Option<Apath>)
    requires
        entries_ok(es), all_after(last, es),
        entries_ok(more), all_after(last, more),
    ensures
        entries_ok(es + more), all_after(last, es + more),
{
    reveal(entries_ok);
    reveal(all_after);
}

// pairwise distinct paths, in the shape the sort shim's precondition asks for
proof fn lemma_distinct_pairs(es: Seq<IndexEntry>)
    requires distinct_apaths(es),
    ensures forall|i: int, j: int| 0 <= i < es.len() && 0 <= j < es.len() && i != j ==> (#[trigger] es[i]).apath@ != (#[trigger] es[j]).apath@,
{
    reveal(distinct_apaths);
}

// a strictly increasing list: any later entry sorts after any earlier one (used across hunks: the greatest entry of a
// written hunk is below everything pushed afterwards by transitivity at the caller)
proof fn lemma_last_is_greatest(es: Seq<IndexEntry>, i: int)
    requires strictly_increasing(es), 0 <= i < es.len() - 1,
    ensures apath_lt(es[i].apath, es.last().apath),
{
    reveal(strictly_increasing);
}

// C17: the sorted arrangement (hence the bytes of the hunk) depends only on WHICH entries are queued, not on the order
// in which they were pushed, nor on any choice made by the unstable sort.
proof fn lemma_sorted_of_ignores_insertion_order(a: Seq<IndexEntry>, b: Seq<IndexEntry>)
    requires
        a.to_multiset() == b.to_multiset(),
        is_sorted_perm(sorted_of(a), a),
    ensures
        sorted_of(a) == sorted_of(b), //# C17.insertion_order_irrelevant
{
    assert(is_sorted_perm(sorted_of(a), b));
    assert(is_sorted_perm(sorted_of(b), b));
    lemma_sorted_perm_unique(sorted_of(a), sorted_of(b));
}
