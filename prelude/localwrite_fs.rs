// ---- localwrite_fs: ghost file-system model + ASSUMED contracts of the tokio::fs / std::io primitives used by
// ---- transport::local::Protocol::{write, create_dir}  (DESIGN 3 R3/R8, 4.6; property C07).
//
// The model is the ONE place where storage state is explicit: `FsModel.files` maps a full path to the bytes of
// the regular file stored there, `FsModel.dirs` is the set of directories.  It is threaded through the verified
// function and every primitive that touches the disk as a trailing `Tracked(w): Tracked<&mut FsModel>` (rule R8).
// Semantics assumed: POSIX open(2)/write(2)/unlink(2)/mkdir(2)/stat(2) as wrapped by tokio 1.x `tokio::fs`
// (each call runs the std::fs equivalent on the blocking pool); ONE task runs to completion, no other process
// touches the tree meanwhile (interleavings are not explored: DESIGN 7 C07, section 8 C06).
// Everything `external_body` / `uninterp` below is an assumption and is listed in the trusted base.

pub struct FsModel {
    pub files: Map<Seq<char>, Seq<u8>>,
    pub dirs: Set<Seq<char>>,
}

// a regular file with at least one byte: what C07 protects ("a zero-length leftover ... may be completed")
spec fn has_content(m: &FsModel, p: Seq<char>) -> bool {
    m.files.contains_key(p) && m.files[p].len() > 0
}

spec fn is_u8_prefix(p: Seq<u8>, s: Seq<u8>) -> bool {
    p.len() <= s.len() && s.subrange(0, p.len() as int) == p
}

// std::path::PathBuf, viewed as its text (the key of the model).
#[verifier::external_body]
struct PathBuf { inner: std::path::PathBuf }
impl PathBuf {
    uninterp spec fn view(&self) -> Seq<char>;
}

// url::Url, tempfile::TempDir: fields of Protocol that no contract mentions.
#[verifier::external_body]
struct Url { inner: u8 }
#[verifier::external_body]
struct TempDir { inner: u8 }

// std::io::ErrorKind: the kinds the bodies distinguish, everything else is `Other`.
#[derive(PartialEq, Eq, Structural, Clone, Copy)]
enum ErrorKind { NotFound, AlreadyExists, Other }

// std::io::Error
#[verifier::external_body]
struct IoError { inner: std::io::Error }
impl IoError {
    uninterp spec fn s_kind(&self) -> ErrorKind;
    #[verifier::external_body]
    fn kind(&self) -> (r: ErrorKind)
        ensures r == self.s_kind(),
    { unimplemented!() }
}

// conserve::transport::Error (payload content is not mentioned by any contract: R5)
#[verifier::external_body]
struct Error { inner: u8 }
impl Error {
    #[verifier::external_body]
    fn io_error(path: &PathBuf, source: IoError) -> (r: Error)
    { unimplemented!() }
}
type Result<T> = std::result::Result<T, Error>;

//@@ type src/transport.rs | enum WriteMode derive=Clone,Copy,PartialEq,Eq,Structural
//@@ end

//@@ type src/transport/local.rs | struct Protocol
//@@ end

impl Protocol {
    // `self.path.join(relpath)`: a function of the transport root and the relative path (std `Path::join`).
    uninterp spec fn s_full_path(&self, relpath: Seq<char>) -> Seq<char>;

    // ASSUMED contract of Protocol::full_path (body: `debug_assert!(!relpath.contains("/../")); self.path.join(relpath)`;
    // not extracted: PathBuf::join has no vstd spec and `debug_assert!` with a message is not accepted by Verus).
    #[verifier::external_body]
    fn full_path(&self, relpath: &str) -> (r: PathBuf)
        ensures r@ == self.s_full_path(relpath@),
    { unimplemented!() }
}

// std: Result::or_else (vstd specifies map/map_err but not or_else): the closure runs on the error only.
pub assume_specification<T, E, F, O: FnOnce(E) -> std::result::Result<T, F>>[ std::result::Result::<T, E>::or_else ](s: std::result::Result<T, E>, op: O) -> (r: std::result::Result<T, F>)
    requires
        s is Err ==> op.requires((s->Err_0,)),
    ensures
        s is Ok ==> r == std::result::Result::<T, F>::Ok(s->Ok_0),
        s is Err ==> op.ensures((s->Err_0,), r);

// std::mem::drop: closes the handle; no effect any contract mentions.
pub assume_specification<T>[ std::mem::drop ](_0: T);

// ---------------------------------------------------------------------------------------------------------
// tokio::fs free functions

// tokio::fs::write(path, contents): "creates a file if it does not exist, and will entirely replace its contents
// if it does" = open(O_WRONLY|O_CREAT|O_TRUNC) + write_all.  It takes NO OpenOptions: whatever builder the caller
// prepared beforehand is ignored.  On error either nothing happened (open failed) or the file was
// created/truncated and some prefix of the content (possibly none) reached it.
#[verifier::external_body]
async fn shim_tokio_write(path: &PathBuf, content: &[u8], Tracked(w): Tracked<&mut FsModel>) -> (r: std::result::Result<(), IoError>)
    ensures
        final(w).dirs == old(w).dirs,
        r is Ok ==> final(w).files == old(w).files.insert(path@, content@),
        r is Err ==> final(w).files == old(w).files
            || (final(w).files.contains_key(path@)
                && final(w).files == old(w).files.insert(path@, final(w).files[path@])
                && is_u8_prefix(final(w).files[path@], content@)),
{ unimplemented!() }

// tokio::fs::remove_file(path) = unlink(2): on Ok exactly that name is gone, on Err nothing changed.
#[verifier::external_body]
async fn shim_tokio_remove_file(path: &PathBuf, Tracked(w): Tracked<&mut FsModel>) -> (r: std::result::Result<(), IoError>)
    ensures
        final(w).dirs == old(w).dirs,
        r is Ok ==> old(w).files.contains_key(path@) && final(w).files == old(w).files.remove(path@),
        r is Err ==> final(w).files == old(w).files,
{ unimplemented!() }

// tokio::fs::create_dir(path) = mkdir(2): never touches a regular file; fails with AlreadyExists (EEXIST) when the
// name is taken (by a directory or by a file) and only then; on Ok the directory is new.
#[verifier::external_body]
async fn shim_tokio_create_dir(path: &PathBuf, Tracked(w): Tracked<&mut FsModel>) -> (r: std::result::Result<(), IoError>)
    ensures
        final(w).files == old(w).files,
        r is Ok ==> !old(w).dirs.contains(path@) && !old(w).files.contains_key(path@)
            && final(w).dirs == old(w).dirs.insert(path@),
        r is Err ==> final(w).dirs == old(w).dirs,
        old(w).dirs.contains(path@) || old(w).files.contains_key(path@)
            ==> r is Err && r->Err_0.s_kind() == ErrorKind::AlreadyExists,
        r is Err && r->Err_0.s_kind() == ErrorKind::AlreadyExists
            ==> old(w).dirs.contains(path@) || old(w).files.contains_key(path@),
{ unimplemented!() }

// std::fs::Metadata as returned by tokio::fs::metadata = stat(2).
#[verifier::external_body]
struct Metadata { inner: std::fs::Metadata }
impl Metadata {
    uninterp spec fn s_is_file(&self) -> bool;
    uninterp spec fn s_len(&self) -> u64;
    #[verifier::external_body]
    fn is_file(&self) -> (r: bool)
        ensures r == self.s_is_file(),
    { unimplemented!() }
    #[verifier::external_body]
    fn len(&self) -> (r: u64)
        ensures r == self.s_len(),
    { unimplemented!() }
}

// tokio::fs::metadata(path): read-only; if it reports a regular file then that file is in the model and the
// reported length is its length.
#[verifier::external_body]
async fn shim_tokio_metadata(path: &PathBuf, Tracked(w): Tracked<&mut FsModel>) -> (r: std::result::Result<Metadata, IoError>)
    ensures
        final(w).files == old(w).files,
        final(w).dirs == old(w).dirs,
        r is Ok && r->Ok_0.s_is_file() ==> old(w).files.contains_key(path@)
            && r->Ok_0.s_len() as int == old(w).files[path@].len(),
{ unimplemented!() }

// ---------------------------------------------------------------------------------------------------------
// tokio::fs::OpenOptions (builder) and tokio::fs::File

struct OpenFlags { write: bool, create_new: bool, create: bool, truncate: bool }

#[verifier::external_body]
struct OpenOptions { inner: u8 }

impl OpenOptions {
    uninterp spec fn flags(&self) -> OpenFlags;

    // OpenOptions::new(): "all options are initially set to false"
    #[verifier::external_body]
    fn new() -> (r: OpenOptions)
        ensures r.flags() == (OpenFlags { write: false, create_new: false, create: false, truncate: false }),
    { unimplemented!() }

    // each setter changes its own flag and returns the same builder
    #[verifier::external_body]
    fn write(&mut self, b: bool) -> (r: &mut OpenOptions)
        ensures (*r).flags() == (OpenFlags { write: b, ..old(self).flags() }), *final(self) == *final(r),
    { unimplemented!() }
    #[verifier::external_body]
    fn create_new(&mut self, b: bool) -> (r: &mut OpenOptions)
        ensures (*r).flags() == (OpenFlags { create_new: b, ..old(self).flags() }), *final(self) == *final(r),
    { unimplemented!() }
    #[verifier::external_body]
    fn create(&mut self, b: bool) -> (r: &mut OpenOptions)
        ensures (*r).flags() == (OpenFlags { create: b, ..old(self).flags() }), *final(self) == *final(r),
    { unimplemented!() }
    #[verifier::external_body]
    fn truncate(&mut self, b: bool) -> (r: &mut OpenOptions)
        ensures (*r).flags() == (OpenFlags { truncate: b, ..old(self).flags() }), *final(self) == *final(r),
    { unimplemented!() }

    // options.open(path) = open(2) with the flags of the builder.
    //  * create_new (O_CREAT|O_EXCL): if the name exists the call fails with AlreadyExists and nothing changes;
    //    otherwise on Ok a new EMPTY file exists.  Check and creation are one atomic step (THE atomicity assumption).
    //  * otherwise, name exists: on Ok the file is emptied iff `truncate` (O_TRUNC needs write access), else untouched;
    //  * otherwise, name absent: created empty iff `create` (needs write), else the call fails with NotFound.
    //  * on Err nothing changed.
    #[verifier::external_body]
    async fn open(&self, path: &PathBuf, Tracked(w): Tracked<&mut FsModel>) -> (r: std::result::Result<File, IoError>)
        ensures
            final(w).dirs == old(w).dirs,
            r is Err ==> final(w).files == old(w).files,
            r is Ok ==> r->Ok_0.path() == path@ && r->Ok_0.writable() == self.flags().write && r->Ok_0.pos() == 0,
            self.flags().create_new && old(w).files.contains_key(path@)
                ==> r is Err && r->Err_0.s_kind() == ErrorKind::AlreadyExists,
            self.flags().create_new && r is Ok ==> final(w).files == old(w).files.insert(path@, Seq::empty()),
            !self.flags().create_new && r is Ok && old(w).files.contains_key(path@) ==> final(w).files ==
                (if self.flags().truncate && self.flags().write { old(w).files.insert(path@, Seq::empty()) } else { old(w).files }),
            !self.flags().create_new && r is Ok && !old(w).files.contains_key(path@)
                ==> self.flags().create && self.flags().write && final(w).files == old(w).files.insert(path@, Seq::empty()),
    { unimplemented!() }
}

#[verifier::external_body]
struct File { inner: u8 }

impl File {
    uninterp spec fn path(&self) -> Seq<char>;      // the name it was opened under
    uninterp spec fn writable(&self) -> bool;
    uninterp spec fn pos(&self) -> int;             // bytes written through this handle so far

    // tokio::io::AsyncWriteExt::write_all on a File.  Specified for the only case the callers need: a handle that
    // has written nothing yet, on a file that is (still) present under its name and empty.  Then Ok stores exactly
    // the buffer, Err leaves some prefix of it (possibly nothing).  In every case no other name is affected and
    // no name appears or disappears.
    #[verifier::external_body]
    async fn write_all(&mut self, buf: &[u8], Tracked(w): Tracked<&mut FsModel>) -> (r: std::result::Result<(), IoError>)
        ensures
            final(w).dirs == old(w).dirs,
            final(self).path() == old(self).path(),
            final(self).writable() == old(self).writable(),
            old(w).files.contains_key(old(self).path())
                ==> final(w).files == old(w).files.insert(old(self).path(), final(w).files[old(self).path()]),
            !old(w).files.contains_key(old(self).path()) ==> final(w).files == old(w).files,
            !old(self).writable() ==> r is Err && final(w).files == old(w).files,
            old(self).writable() && old(self).pos() == 0 && old(w).files.contains_key(old(self).path())
                && old(w).files[old(self).path()].len() == 0 ==> {
                    &&& r is Ok ==> final(w).files[old(self).path()] == buf@ && final(self).pos() == buf@.len()
                    &&& r is Err ==> is_u8_prefix(final(w).files[old(self).path()], buf@)
                },
    { unimplemented!() }

    // AsyncWriteExt::flush: tokio performs file writes on a blocking thread; flush waits for them and reports their
    // error.  The model already accounts the bytes at write_all, so flush changes nothing in it.
    #[verifier::external_body]
    async fn flush(&mut self) -> (r: std::result::Result<(), IoError>)
        ensures
            final(self).path() == old(self).path(),
            final(self).writable() == old(self).writable(),
            final(self).pos() == old(self).pos(),
    { unimplemented!() }
}
