// ---- bandinfo_create: declarations for `Band::create` (expanded INSIDE `mod krate_create { use super::*; .. }`) ----
// A module of its own because the header PROVED for Band::create_with_flags (unit band) speaks of
// `Archive::band_set(): Set<u32>` while the header proved for Archive::resolve_band_id (unit select, used in `mod krate`)
// speaks of `Archive::band_set(): Set<BandId>`: the two stubs cannot be methods of one type.

// crate::Error: no contract of this module distinguishes a variant
enum Error {
    Other,
}

type Result<T> = std::result::Result<T, Error>;

//@@ type src/band.rs | struct Head
//@ rewrite
Cow<'static, str> ==> CowStr
//@@ end

//@@ type src/band.rs | struct Band
//@@ end

//@@ type src/archive.rs | struct Archive
//@@ end

impl Archive {
    // (band_shims.rs, same text)
    spec fn root(&self) -> Seq<u8> { self.transport.dir() }

    // (band_shims.rs, same text) ids of the band directories present in the archive when the current operation started
    uninterp spec fn band_set(&self) -> Set<u32>;
}

impl Band {
    // (units/band.vu, same text) every Band value denotes a band directory whose head exists (C03-O3)
    spec fn wf(&self) -> bool { head_written(self.transport.dir()) }
}

// src/band.rs `pub mod flags`: the default flag list is cut from the source, so an edit is seen
mod flags {
    use super::*;
// It becomes an `exec const` with a VERIFIED postcondition (Verus cannot evaluate the array-to-slice coercion of a plain
// const in spec mode); the initializer expression stays the source's.
//@@ type src/band.rs | static DEFAULT
//@ rewrite
static DEFAULT: &[Cow<'static, str>] = ==> pub exec const DEFAULT: &'static [CowStr] ensures DEFAULT@.len() == 0 {
[n=1] ; ==> }
//@@ end
}
