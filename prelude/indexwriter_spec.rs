// ---- indexwriter_spec: what a conforming index hunk file is (doc/format.md "Index", "Index hunks"; C13, C03-O1, C11) ----
// Written from doc/format.md and the property statements, not from src/index/write.rs.
//@@ include apath_stub.rs
//@@ include store_spec.rs
//@@ include order_lemmas.rs
//@@ include indexwriter_decimal.rs

// ---------- types of an index entry (R11: declarations copied, serde attributes dropped) ----------

//@@ type src/kind.rs | enum Kind derive=Clone,Copy
//@@ end

//@@ type src/unix_mode.rs | struct UnixMode
//@@ end

//@@ type src/owner.rs | struct Owner
//@@ end

//@@ type src/index/entry.rs | struct IndexEntry
//@ rewrite
blockdir::Address ==> Address
//@@ end

// format.md: hunks live "in a subdirectory for the sequence number divided by 10000 and padded to five digits",
// and "are named with decimal sequence numbers padded to 9 digits"; paths are relative to the band's `i/` directory.
spec fn subdir_path_spec(n: nat) -> Seq<u8> { dec_pad(n / 10000, 5) }

spec fn hunk_path_spec(n: nat) -> Seq<u8> { subdir_path_spec(n) + seq![SLASH] + dec_pad(n, 9) }

// C07: one writer never writes the same hunk path twice - the path is an injective function of the hunk number
// (and the number is used up only by a successful write: finish_hunk's counter clauses).
proof fn lemma_hunk_path_injective(n: nat, m: nat)
    ensures hunk_path_spec(n) == hunk_path_spec(m) ==> n == m, //# C07.hunk_paths_distinct
{
    lemma_dec_pad(n, 9);
    lemma_dec_pad(m, 9);
    lemma_tail_value(subdir_path_spec(n), dec_pad(n, 9));
    lemma_tail_value(subdir_path_spec(m), dec_pad(m, 9));
    assert(hunk_path_spec(n) =~= subdir_path_spec(n).push(SLASH) + dec_pad(n, 9));
    assert(hunk_path_spec(m) =~= subdir_path_spec(m).push(SLASH) + dec_pad(m, 9));
}

// ---------- content ----------

// serde_json::to_vec of a list of index entries / raw Snappy compression: uninterpreted, deterministic functions of
// their input (nothing else is assumed about them here).
uninterp spec fn json_of(entries: Seq<IndexEntry>) -> Seq<u8>;

uninterp spec fn snappy(data: Seq<u8>) -> Seq<u8>;

// One entry is fit to be recorded:
//  * its path is a well-formed apath (C13 "entries valid paths");
//  * every address points into a block that is already durably stored and lies inside it (C03-O1, C13);
//  * only files carry addresses (C13);
//  * exactly symlinks carry a target (C13).
spec fn entry_ok(e: IndexEntry) -> bool {
    &&& e.apath.valid()
    &&& addrs_valid(e.addrs@)
    &&& (!(e.kind is File) ==> e.addrs@.len() == 0)
    &&& (e.target is Some <==> e.kind is Symlink)
}

#[verifier::opaque]
spec fn entries_ok(es: Seq<IndexEntry>) -> bool {
    forall|i: int| 0 <= i < es.len() ==> entry_ok(#[trigger] es[i])
}

// strictly increasing in the documented apath order (format.md: "Entries are sorted by apath ... within each hunk")
#[verifier::opaque]
spec fn strictly_increasing(es: Seq<IndexEntry>) -> bool {
    forall|i: int, j: int| 0 <= i < j < es.len() ==> apath_lt(#[trigger] es[i].apath, #[trigger] es[j].apath)
}

// every entry sorts after `last` (format.md: "... and across all hunks")
#[verifier::opaque]
spec fn all_after(last: Option<Apath>, es: Seq<IndexEntry>) -> bool {
    last is Some ==> forall|i: int| 0 <= i < es.len() ==> apath_lt(last.unwrap(), #[trigger] es[i].apath)
}

#[verifier::opaque]
spec fn distinct_apaths(es: Seq<IndexEntry>) -> bool {
    forall|i: int, j: int| 0 <= i < es.len() && 0 <= j < es.len() && i != j ==> (#[trigger] es[i]).apath@ != (#[trigger] es[j]).apath@
}

// ---------- monotone knowledge about the index directory (DESIGN 4.3; only ever used positively) ----------
// `t` identifies the directory a Transport points at.

// directory `path` has been created under t
uninterp spec fn dir_created(t: int, path: Seq<u8>) -> bool;

// a file `path` with exactly these bytes has been written under t by a completed write
uninterp spec fn file_written(t: int, path: Seq<u8>, bytes: Seq<u8>) -> bool;

// hunk number n of the index at t has been written (with some conforming content)
spec fn hunk_written(t: int, n: nat) -> bool {
    exists|bytes: Seq<u8>| #[trigger] file_written(t, hunk_path_spec(n), bytes)
}

// ---------- THE obligation on every file written into an index directory ----------
// (path, bytes) is hunk number n holding exactly the list `es`
spec fn hunk_is(t: int, n: nat, es: Seq<IndexEntry>, path: Seq<u8>, bytes: Seq<u8>) -> bool {
    &&& n <= u32::MAX
    &&& path == hunk_path_spec(n)                       // C13 naming
    &&& dir_created(t, subdir_path_spec(n))             // its sub-directory exists
    &&& bytes == snappy(json_of(es))                    // C13 "serialized as json and then Snappy compressed"
    &&& es.len() > 0                                    // C13 never empty
    &&& strictly_increasing(es)                         // C11/C13 sorted within the hunk
    &&& entries_ok(es)                                  // C03-O1 blocks before hunk; C13 shapes
}

spec fn hunk_write_ok(t: int, path: Seq<u8>, bytes: Seq<u8>) -> bool {
    exists|n: nat, es: Seq<IndexEntry>| #[trigger] hunk_is(t, n, es, path, bytes)
}

// the only directories an index writer creates: the sub-directory of a hunk number that starts a new group of 10000
spec fn subdir_create_ok(path: Seq<u8>) -> bool {
    exists|n: nat| n % 10000 == 0 && path == #[trigger] subdir_path_spec(n)
}
