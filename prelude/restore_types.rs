// ---- restore_types: declarations the restore functions work on (R11) and the shims of the conserve-internal
// collaborators that belong to OTHER units (their contracts as stated in DESIGN 7) ----

//@@ type src/kind.rs | enum Kind derive=Clone,Copy,PartialEq,Eq,Structural
//@@ end

//@@ type src/owner.rs | struct Owner
//@@ end

//@@ type src/unix_mode.rs | struct UnixMode derive=Clone,Copy
//@@ end

//@@ type src/index/entry.rs | struct IndexEntry
//@ rewrite
blockdir::Address ==> Address
//@@ end

//@@ type src/restore.rs | struct DirDeferral
//@@ end

// RestoreOptions: the real declaration; the test-only failure-injection map and the boxed callback are shim types.
//@@ type src/restore.rs | struct RestoreOptions
//@ rewrite
HashMap<Apath, io::ErrorKind> ==> InjectFailures
//@@ end

// std HashMap<Apath, io::ErrorKind> (R3), used only for test failure injection: any lookup result is possible.
#[verifier::external_body]
struct InjectFailures { m: std::collections::HashMap<String, IoErrorKind> }
impl InjectFailures {
    #[verifier::external_body]
    fn get(&self, k: &Apath) -> (r: Option<&io::ErrorKind>)
    { unimplemented!() }
}

// Box<dyn Fn(&EntryChange) -> Result<()>> (R3): a user callback; it may return anything.
#[verifier::external_body]
struct ChangeCallback { f: Box<dyn Fn(&EntryChange) -> Result<()>> }

#[verifier::external_body]
struct EntryChange { x: u8 }
impl EntryChange {
    // src/change.rs EntryChange::added: builds a description of the entry; pure.
    #[verifier::external_body]
    fn added(entry: &IndexEntry) -> (r: EntryChange)
    { unimplemented!() }
}

// R4: calling the boxed closure `cb(x)`.
#[verifier::external_body]
fn shim_call_change_callback(cb: &ChangeCallback, c: &EntryChange) -> (r: Result<()>)
{ (cb.f)(c) }

#[verifier::external_body]
struct Exclude { x: u8 }
impl Clone for Exclude {
    #[verifier::external_body]
    fn clone(&self) -> (r: Self) { unimplemented!() }
}
#[verifier::external_body]
struct BandSelectionPolicy { x: u8 }
impl Clone for BandSelectionPolicy {
    #[verifier::external_body]
    fn clone(&self) -> (r: Self) { unimplemented!() }
}

impl Clone for Owner {
    #[verifier::external_body]
    fn clone(&self) -> (r: Self)
        ensures r == *self,
    { Owner { user: self.user.clone(), group: self.group.clone() } }
}

// ---- crate::Error (src/errors.rs), reduced (R11/R5): only the variants the restore functions construct or
// convert into, with their real field names and types.  No contract looks inside a payload. ----
#[allow(inconsistent_fields)]
enum Error {
    DestinationNotEmpty,
    InvalidMetadata { details: String },
    RestoreFile { path: PathBuf, source: io::Error },
    RestoreSymlink { path: PathBuf, source: io::Error },
    RestoreFileBlock { apath: Apath, hash: BlockHash, source: Box<Error> },
    RestoreDirectory { path: PathBuf, source: io::Error },
    RestoreOwnership { path: PathBuf, source: io::Error },
    RestorePermissions { path: PathBuf, source: io::Error },
    RestoreModificationTime { path: PathBuf, source: io::Error },
    IOError { source: io::Error },
    // every other variant of the real enum (errors of the archive-reading collaborators)
    Other,
}
type Result<T> = std::result::Result<T, Error>;

// thiserror `#[from] io::Error` on Error::IOError
impl vstd::std_specs::convert::FromSpecImpl<io::Error> for Error {
    // nothing is claimed about which variant the conversion yields
    open spec fn obeys_from_spec() -> bool { false }
    open spec fn from_spec(source: io::Error) -> Error { arbitrary() }
}
impl From<io::Error> for Error {
    fn from(source: io::Error) -> (r: Error) { Error::IOError { source } }
}

// R5: `format!("...{:?}", apath)` in an error payload; no contract mentions the text.
#[verifier::external_body]
fn shim_fmt_debug(prefix: &str, a: &Apath) -> (r: String)
{ format!("{}{:?}", prefix, a.0) }

// ---- Monitor (R3: Arc<dyn Monitor>) with the ghost log of error reports (R8 ghost parameter) ----
// `n` counts the calls of `Monitor::error` — the observable "an error was reported".
// `phase` is set only by inserted ghost statements in `restore` (0 setup, 1 restoring one entry, 2 user callback,
// 3 after the loop) and is preserved by every call.
tracked struct Reports {
    ghost n: int,
    ghost phase: int,
}

#[verifier::external_body]
struct MonitorArc { x: u8 }
impl MonitorArc {
    // Monitor::error(&self, error): reports one non-fatal error.
    #[verifier::external_body]
    fn error(&self, Tracked(rep): Tracked<&mut Reports>, e: Error)
        ensures
            final(rep).n == old(rep).n + 1,
            final(rep).phase == old(rep).phase,
    { unimplemented!() }
}
impl Clone for MonitorArc {
    #[verifier::external_body]
    fn clone(&self) -> (r: Self) { unimplemented!() }
}

// ---- Apath additions needed here (not in apath_stub.rs) ----
impl Apath {
    // src/apath.rs Apath::root(): "/"
    #[verifier::external_body]
    fn root() -> (r: Apath)
        ensures r.bytes() == seq![SLASH],
    { Apath(String::from("/")) }
}
// derive(PartialEq) on Apath(String): string equality
impl vstd::std_specs::cmp::PartialEqSpecImpl for Apath {
    open spec fn obeys_eq_spec() -> bool { true }
    open spec fn eq_spec(&self, other: &Apath) -> bool { self@ == other@ }
}
impl PartialEq for Apath {
    #[verifier::external_body]
    fn eq(&self, other: &Apath) -> (r: bool) { self.0 == other.0 }
}

// ---- IndexEntry: spec projections; the accessors themselves are cut from src/index/entry.rs in the unit ----
impl UnixMode {
    spec fn smode(&self) -> Option<u32> { self.0 }
}

// "the mode recorded in the entry is in force at p": nothing recorded = nothing to do
spec fn mode_applied(p: Seq<u8>, m: UnixMode) -> bool {
    match m.0 { Some(mode) => mode_set(p, mode), None => true }
}

spec fn opt_str_bytes(o: Option<&str>) -> Option<Seq<u8>> {
    match o { Some(s) => Some(s.spec_bytes()), None => None }
}
spec fn opt_string_bytes(o: Option<String>) -> Option<Seq<u8>> {
    match o { Some(s) => Some(bytes_of(s@)), None => None }
}

impl IndexEntry {
    // the instant the entry records: mtime seconds + mtime_nanos (format.md)
    spec fn instant(&self) -> int { self.mtime as int * 1_000_000_000 + self.mtime_nanos as int }

    // src/index/entry.rs IndexEntry::mtime — verified in unit `timeconv` (its no-panic obligation lives there);
    // here only: the Timestamp denotes the recorded instant.
    // The recorded pair denotes a representable instant (what every backup writes: nanos below one second, instant
    // inside jiff's range -377705023201 s ..= 253402207200 s).  For other DECODED values (a damaged index) the real
    // function falls back to the Unix epoch instead of panicking, so the clause below is conditional (link F3).
    spec fn time_wf(&self) -> bool {
        self.mtime_nanos < 1_000_000_000
            && -377705023201int * 1_000_000_000 <= self.instant() <= 253402207200int * 1_000_000_000 + 999_999_999
    }

    #[verifier::external_body]
    fn mtime(&self) -> (r: Timestamp)
        ensures self.time_wf() ==> r.instant() == self.instant(),
    { unimplemented!() }

    // `self.target.as_deref()` (Option<String> -> Option<&str>)
    #[verifier::external_body]
    fn symlink_target(&self) -> (r: Option<&str>)
        ensures opt_str_bytes(r) == opt_string_bytes(self.target),
    { self.target.as_deref() }
}

// ---- BlockDir as seen from restore (contract of unit `blockdir`, DESIGN 7 C01: Ok(bytes) => bytes == slice(a)) ----
#[verifier::external_body]
struct BlockDir { x: u8 }
impl BlockDir {
    #[verifier::external_body]
    async fn read_address(&self, address: &Address, monitor: MonitorArc) -> (r: Result<Bytes>)
        ensures r matches Ok(b) ==> b@ == address.slice(),
    { unimplemented!() }
}

// R6: `for addr in &entry.addrs`
#[verifier::external_body]
struct AddrIter<'a> { it: std::slice::Iter<'a, Address> }
impl<'a> AddrIter<'a> {
    uninterp spec fn rem(&self) -> Seq<Address>;
    #[verifier::external_body]
    fn next(&mut self) -> (r: Option<&'a Address>)
        ensures
            old(self).rem().len() == 0 ==> r is None && final(self).rem() == old(self).rem(),
            old(self).rem().len() > 0 ==> r == Some(&old(self).rem()[0]) && final(self).rem() == old(self).rem().skip(1),
    { self.it.next() }
}
#[verifier::external_body]
fn shim_iter_addrs<'a>(v: &'a Vec<Address>) -> (r: AddrIter<'a>)
    ensures r.rem() == v@,
{ AddrIter { it: v.iter() } }

// R6: `for DirDeferral {..} in deferrals`
#[verifier::external_body]
struct DeferralIter<'a> { it: std::slice::Iter<'a, DirDeferral> }
impl<'a> DeferralIter<'a> {
    uninterp spec fn rem(&self) -> Seq<DirDeferral>;
    #[verifier::external_body]
    fn next(&mut self) -> (r: Option<&'a DirDeferral>)
        ensures
            old(self).rem().len() == 0 ==> r is None && final(self).rem() == old(self).rem(),
            old(self).rem().len() > 0 ==> r == Some(&old(self).rem()[0]) && final(self).rem() == old(self).rem().skip(1),
    { self.it.next() }
}
#[verifier::external_body]
fn shim_iter_deferrals<'a>(v: &'a [DirDeferral]) -> (r: DeferralIter<'a>)
    ensures r.rem() == v@,
{ DeferralIter { it: v.iter() } }

// ---- the archive-reading side (units `select`, `stitch`) ----
#[verifier::external_body]
struct Archive { x: u8 }
#[verifier::external_body]
struct StoredTree { x: u8 }

// Stitch: the stitched listing; `rem()` = the entries it will still yield.
#[verifier::external_body]
struct Stitch { x: u8 }
impl Stitch {
    uninterp spec fn rem(&self) -> Seq<IndexEntry>;
    // Stitch::next: yields the entries in order; None when exhausted (termination: unit `stitch`).
    #[verifier::external_body]
    async fn next(&mut self) -> (r: Option<IndexEntry>)
        ensures
            old(self).rem().len() == 0 ==> r is None && final(self).rem() == old(self).rem() && listing_exhausted(),
            old(self).rem().len() > 0 ==> r == Some(old(self).rem()[0]) && final(self).rem() == old(self).rem().skip(1),
    { unimplemented!() }
}

impl Archive {
    #[verifier::external_body]
    async fn open_stored_tree(&self, band_selection: BandSelectionPolicy) -> (r: Result<StoredTree>)
    { unimplemented!() }
    // returns Arc<BlockDir> in the real code; the Arc is erased (R3): only `&BlockDir` is used.
    #[verifier::external_body]
    async fn block_dir(&self) -> (r: Result<BlockDir>)
    { unimplemented!() }
}
impl StoredTree {
    // ASSUMPTION "archive written by conserve" (DESIGN 7 C16): every listed apath is valid.  (`Apath`'s derived
    // Deserialize does not validate; a hand-made archive is outside C16's quantifier.)
    #[verifier::external_body]
    fn iter_entries(&self, subtree: Apath, exclude: Exclude, monitor: MonitorArc) -> (r: Stitch)
        ensures forall|i: int| 0 <= i < r.rem().len() ==> (#[trigger] r.rem()[i]).apath.valid(),
    { unimplemented!() }
}
