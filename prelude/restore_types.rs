// ---- restore_types: declarations the restore functions work on (R11) and the shims of the conserve-internal
// collaborators that belong to OTHER units (their contracts as stated in DESIGN 7) ----

//@@ type src/kind.rs | enum Kind derive=Clone,Copy,PartialEq,Eq,Structural
//@@ end

//@@ type src/owner.rs | struct Owner
//@@ end

//@@ type src/unix_mode.rs | struct UnixMode derive=Clone,Copy
//@@ end

//@@ type src/index/entry.rs | struct IndexEntry
//@ rewrite
blockdir::Address ==> Address
//@@ end

//@@ type src/restore.rs | struct DirDeferral
//@@ end

// RestoreOptions: the real declaration; the test-only failure-injection map and the boxed callback are shim types.
//@@ type src/restore.rs | struct RestoreOptions
//@ rewrite
HashMap<Apath, io::ErrorKind> ==> InjectFailures
//@@ end

// std HashMap<Apath, io::ErrorKind> (R3), used only for test failure injection: any lookup result is possible.
#[verifier::external_body]
struct InjectFailures { m: std::collections::HashMap<String, IoErrorKind> }
impl InjectFailures {
    #[verifier::external_body]
    fn get(&self, k: &Apath) -> (r: Option<&io::ErrorKind>)
    { unimplemented!() }
}

// Box<dyn Fn(&EntryChange) -> Result<()>> (R3): a user callback; it may return anything.
#[verifier::external_body]
struct ChangeCallback { f: Box<dyn Fn(&EntryChange) -> Result<()>> }

#[verifier::external_body]
struct EntryChange { x: u8 }
impl EntryChange {
    // src/change.rs EntryChange::added: builds a description of the entry; pure.
    #[verifier::external_body]
    fn added(entry: &IndexEntry) -> (r: EntryChange)
    { unimplemented!() }
}

// R4: calling the boxed closure `cb(x)`.
#[verifier::external_body]
fn shim_call_change_callback(cb: &ChangeCallback, c: &EntryChange) -> (r: Result<()>)
{ (cb.f)(c) }

#[verifier::external_body]
struct Exclude { x: u8 }
impl Clone for Exclude {
    #[verifier::external_body]
    fn clone(&self) -> (r: Self) { unimplemented!() }
}
#[verifier::external_body]
struct BandSelectionPolicy { x: u8 }
impl Clone for BandSelectionPolicy {
    #[verifier::external_body]
    fn clone(&self) -> (r: Self) { unimplemented!() }
}

impl Clone for Owner {
    #[verifier::external_body]
    fn clone(&self) -> (r: Self)
        ensures r == *self,
    { Owner { user: self.user.clone(), group: self.group.clone() } }
}

// ---- crate::Error (src/errors.rs), reduced (R11/R5): only the variants the restore functions construct or
// convert into, with their real field names and types.  No contract looks inside a payload. ----
#[allow(inconsistent_fields)]
enum Error {
    DestinationNotEmpty,
    InvalidMetadata { details: String },
    RestoreFile { path: PathBuf, source: io::Error },
    RestoreSymlink { path: PathBuf, source: io::Error },
    RestoreFileBlock { apath: Apath, hash: BlockHash, source: Box<Error> },
    RestoreDirectory { path: PathBuf, source: io::Error },
    RestoreOwnership { path: PathBuf, source: io::Error },
    RestorePermissions { path: PathBuf, source: io::Error },
    RestoreModificationTime { path: PathBuf, source: io::Error },
    IOError { source: io::Error },
    // every other variant of the real enum (errors of the archive-reading collaborators)
    Other,
}
type Result<T> = std::result::Result<T, Error>;

// thiserror `#[from] io::Error` on Error::IOError
impl vstd::std_specs::convert::FromSpecImpl<io::Error> for Error {
    // nothing is claimed about which variant the conversion yields
    open spec fn obeys_from_spec() -> bool { false }
    open spec fn from_spec(source: io::Error) -> Error { arbitrary() }
}
impl From<io::Error> for Error {
    fn from(source: io::Error) -> (r: Error) { Error::IOError { source } }
}

// R5: `format!("...{:?}", apath)` in an error payload; no contract mentions the text.
#[verifier::external_body]
fn shim_fmt_debug(prefix: &str, a: &Apath) -> (r: String)
{ format!("{}{:?}", prefix, a.0) }

// ---- Monitor (R3: Arc<dyn Monitor>) with the ghost log of error reports (R8 ghost parameter) ----
// `n` counts the calls of `Monitor::error` — the observable "an error was reported".
// `phase` is set only by inserted ghost statements in `restore` (0 setup, 1 restoring one entry, 2 user callback,
// 3 after the loop) and is preserved by every call.
tracked struct Reports {
    ghost n: int,
    ghost phase: int,
}

#[verifier::external_body]
struct MonitorArc { x: u8 }
impl MonitorArc {
    // Monitor::error(&self, error): reports one non-fatal error.
    #[verifier::external_body]
    fn error(&self, Tracked(rep): Tracked<&mut Reports>, e: Error)
        ensures
            final(rep).n == old(rep).n + 1,
            final(rep).phase == old(rep).phase,
    { unimplemented!() }
}
impl Clone for MonitorArc {
    #[verifier::external_body]
    fn clone(&self) -> (r: Self) { unimplemented!() }
}

// ---- Apath additions needed here (not in apath_stub.rs) ----
impl Apath {
    // src/apath.rs Apath::root(): "/"
    #[verifier::external_body]
    fn root() -> (r: Apath)
        ensures r.bytes() == seq![SLASH],
    { Apath(String::from("/")) }
}
// derive(PartialEq) on Apath(String): string equality
impl vstd::std_specs::cmp::PartialEqSpecImpl for Apath {
    open spec fn obeys_eq_spec() -> bool { true }
    open spec fn eq_spec(&self, other: &Apath) -> bool { self@ == other@ }
}
impl PartialEq for Apath {
    #[verifier::external_body]
    fn eq(&self, other: &Apath) -> (r: bool) { self.0 == other.0 }
}

// ---- IndexEntry: spec projections; the accessors themselves are cut from src/index/entry.rs in the unit ----
impl UnixMode {
    spec fn smode(&self) -> Option<u32> { self.0 }
}

// "the mode recorded in the entry is in force at p": nothing recorded = nothing to do
spec fn mode_applied(p: Seq<u8>, m: UnixMode) -> bool {
    match m.0 { Some(mode) => mode_set(p, mode), None => true }
}

spec fn opt_str_bytes(o: Option<&str>) -> Option<Seq<u8>> {
    match o { Some(s) => Some(s.spec_bytes()), None => None }
}
spec fn opt_string_bytes(o: Option<String>) -> Option<Seq<u8>> {
    match o { Some(s) => Some(bytes_of(s@)), None => None }
}

impl IndexEntry {
    // the instant the entry records: mtime seconds + mtime_nanos (format.md)
    spec fn instant(&self) -> int { self.mtime as int * 1_000_000_000 + self.mtime_nanos as int }

    // src/index/entry.rs IndexEntry::mtime — verified in unit `timeconv` (its no-panic obligation lives there);
    // here only: the Timestamp denotes the recorded instant.
    // The recorded pair denotes a representable instant (what every backup writes: nanos below one second, instant
    // inside jiff's range -377705023201 s ..= 253402207200 s).  For other DECODED values (a damaged index) the real
    // function falls back to the Unix epoch instead of panicking, so the clause below is conditional (link F3).
    spec fn time_wf(&self) -> bool {
        self.mtime_nanos < 1_000_000_000
            && -377705023201int * 1_000_000_000 <= self.instant() <= 253402207200int * 1_000_000_000 + 999_999_999
    }

    #[verifier::external_body]
    fn mtime(&self) -> (r: Timestamp)
        ensures self.time_wf() ==> r.instant() == self.instant(),
    { unimplemented!() }

    // `self.target.as_deref()` (Option<String> -> Option<&str>)
    #[verifier::external_body]
    fn symlink_target(&self) -> (r: Option<&str>)
        ensures opt_str_bytes(r) == opt_string_bytes(self.target),
    { self.target.as_deref() }
}

// ---- BlockDir as seen from restore (contract of unit `blockdir`, DESIGN 7 C01: Ok(bytes) => bytes == slice(a)) ----
#[verifier::external_body]
struct BlockDir { x: u8 }
impl BlockDir {
    #[verifier::external_body]
    async fn read_address(&self, address: &Address, monitor: MonitorArc) -> (r: Result<Bytes>)
        ensures r matches Ok(b) ==> b@ == address.slice(),
    { unimplemented!() }
}

// R6: `for addr in &entry.addrs`
#[verifier::external_body]
struct AddrIter<'a> { it: std::slice::Iter<'a, Address> }
impl<'a> AddrIter<'a> {
    uninterp spec fn rem(&self) -> Seq<Address>;
    #[verifier::external_body]
    fn next(&mut self) -> (r: Option<&'a Address>)
        ensures
            old(self).rem().len() == 0 ==> r is None && final(self).rem() == old(self).rem(),
            old(self).rem().len() > 0 ==> r == Some(&old(self).rem()[0]) && final(self).rem() == old(self).rem().skip(1),
    { self.it.next() }
}
#[verifier::external_body]
fn shim_iter_addrs<'a>(v: &'a Vec<Address>) -> (r: AddrIter<'a>)
    ensures r.rem() == v@,
{ AddrIter { it: v.iter() } }

// R6: `for DirDeferral {..} in deferrals`
#[verifier::external_body]
struct DeferralIter<'a> { it: std::slice::Iter<'a, DirDeferral> }
impl<'a> DeferralIter<'a> {
    uninterp spec fn rem(&self) -> Seq<DirDeferral>;
    #[verifier::external_body]
    fn next(&mut self) -> (r: Option<&'a DirDeferral>)
        ensures
            old(self).rem().len() == 0 ==> r is None && final(self).rem() == old(self).rem(),
            old(self).rem().len() > 0 ==> r == Some(&old(self).rem()[0]) && final(self).rem() == old(self).rem().skip(1),
    { self.it.next() }
}
#[verifier::external_body]
fn shim_iter_deferrals<'a>(v: &'a [DirDeferral]) -> (r: DeferralIter<'a>)
    ensures r.rem() == v@,
{ DeferralIter { it: v.iter() } }

// ---- the archive-reading side (units `select`, `stitch`) ----
#[verifier::external_body]
struct Archive { x: u8 }
#[verifier::external_body]
struct StoredTree { x: u8 }

// Stitch: the stitched listing; `rem()` = the entries it will still yield.
#[verifier::external_body]
struct Stitch { x: u8 }
impl Stitch {
    uninterp spec fn rem(&self) -> Seq<IndexEntry>;
    // Stitch::next: yields the entries in order; None when exhausted (termination: unit `stitch`).
    #[verifier::external_body]
    async fn next(&mut self) -> (r: Option<IndexEntry>)
        ensures
            old(self).rem().len() == 0 ==> r is None && final(self).rem() == old(self).rem() && listing_exhausted(),
            old(self).rem().len() > 0 ==> r == Some(old(self).rem()[0]) && final(self).rem() == old(self).rem().skip(1),
    { unimplemented!() }
}

impl Archive {
    #[verifier::external_body]
    async fn open_stored_tree(&self, band_selection: BandSelectionPolicy) -> (r: Result<StoredTree>)
    { unimplemented!() }
    // returns Arc<BlockDir> in the real code; the Arc is erased (R3): only `&BlockDir` is used.
    #[verifier::external_body]
    async fn block_dir(&self) -> (r: Result<BlockDir>)
    { unimplemented!() }
}
impl StoredTree {
    // ASSUMPTION "archive written by conserve" (DESIGN 7 C16): every listed apath is valid.  (`Apath`'s derived
    // Deserialize does not validate; a hand-made archive is outside C16's quantifier.)
    #[verifier::external_body]
    fn iter_entries(&self, subtree: Apath, exclude: Exclude, monitor: MonitorArc) -> (r: Stitch)
        ensures forall|i: int| 0 <= i < r.rem().len() ==> (#[trigger] r.rem()[i]).apath.valid(),
    { unimplemented!() }
}

// =====================================================================================================================
// C16 "nothing is restored below a path restored as a symlink" (src/restore.rs: `symlink_apaths`,
// `has_symlink_ancestor`).  Vocabulary, ghost history and the shims of the std items the new code uses.
// =====================================================================================================================

// `p` is a PROPER ANCESTOR DIRECTORY of the apath `a` (both as bytes): `a` continues `p` with a '/' separator,
// i.e. p == a[..i] for a byte index i >= 1 with a[i] == '/'.  (The root "/" is never such a prefix of a valid apath:
// a valid apath has no empty component, so a[1] != '/'.  The root is the destination directory itself, which restore
// never creates as a link.)
spec fn apath_above(p: Seq<u8>, a: Seq<u8>) -> bool {
    1 <= p.len() < a.len() && a[p.len() as int] == SLASH && a.take(p.len() as int) == p
}

// some proper ancestor directory of `a` is a member of `set`
spec fn has_ancestor_in(set: Set<Seq<u8>>, a: Seq<u8>) -> bool {
    exists|i: int| 1 <= i < a.len() && a[i] == SLASH && set.contains(#[trigger] a.take(i))
}

// the same thing said with `apath_above` (the two forms are used on the two sides of the proof)
proof fn lemma_has_ancestor_in_iff(set: Set<Seq<u8>>, a: Seq<u8>)
    ensures has_ancestor_in(set, a) <==> exists|p: Seq<u8>| #[trigger] set.contains(p) && apath_above(p, a),
{
    if has_ancestor_in(set, a) {
        let i = choose|i: int| 1 <= i < a.len() && a[i] == SLASH && set.contains(#[trigger] a.take(i));
        let p = a.take(i);
        assert(a.take(p.len() as int) == p);
        assert(set.contains(p) && apath_above(p, a));
    }
    if exists|p: Seq<u8>| #[trigger] set.contains(p) && apath_above(p, a) {
        let p = choose|p: Seq<u8>| #[trigger] set.contains(p) && apath_above(p, a);
        let i = p.len() as int;
        assert(set.contains(a.take(i)));
    }
}

// GHOST HISTORY of one restore operation (R8 ghost parameter): the apaths (bytes) of the entries for which this
// restore has so far ATTEMPTED to create a symbolic link, i.e. for which `restore_symlink` has been entered.  It is
// written by `restore_symlink` only (one inserted ghost statement at its entry) and is independent of the executable
// set `symlink_apaths`.  An attempt counts whatever its result: `restore_symlink` can return Err AFTER the link has
// been created (lchown / lutimes failed), so a failed attempt may have left a link behind.
tracked struct LinkHistory {
    ghost links: Set<Seq<u8>>,
}

// THE PROPERTY (C16.nothing_restored_below_a_symlink), precondition of restore_dir / restore_file / restore_symlink:
// no entry restored earlier as a symlink is a proper ancestor directory of the entry restored now -- otherwise the
// path handed to create_dir_all / File::create / symlink would be resolved THROUGH that link, to wherever it points.
spec fn nothing_above_is_a_link(h: LinkHistory, a: Seq<u8>) -> bool {
    forall|p: Seq<u8>| #[trigger] h.links.contains(p) ==> !apath_above(p, a)
}

// the path `restore` derives from an apath: destination.join(&apath[1..])
// (opaque: revealed only where the equation with `Path::join` is needed, which keeps the search small when an edit
// breaks that equation)
#[verifier::opaque]
spec fn dest_path(a: Seq<u8>) -> Seq<u8> { path_join(restore_dest(), a.skip(1)) }

// The guard of `restore` decides the property: the links attempted so far are all remembered in the executable
// set, and no remembered apath is a proper ancestor of `a`.
proof fn lemma_guard_decides(h: LinkHistory, set: Set<Seq<u8>>, a: Seq<u8>)
    requires
        h.links.subset_of(set),
        !has_ancestor_in(set, a),
    ensures
        nothing_above_is_a_link(h, a),
{
    lemma_has_ancestor_in_iff(set, a);
    assert forall|p: Seq<u8>| #[trigger] h.links.contains(p) implies !apath_above(p, a) by {
        if apath_above(p, a) {
            assert(set.contains(p));
        }
    }
}

// Sanity of the vocabulary (pure spec mathematics, no code involved): for valid apaths, "proper ancestor directory"
// on apaths is exactly "proper ancestor directory" on the paths restore derives from them.
spec fn path_above(p: Seq<u8>, q: Seq<u8>) -> bool {
    p.len() < q.len() && q[p.len() as int] == SLASH && q.take(p.len() as int) == p
}

proof fn lemma_valid_second_byte(a: Seq<u8>)
    requires valid_bytes(a), a.len() > 1,
    ensures a[1] != SLASH,
{
    let r = a.skip(1);
    if r[0] == SLASH {
        lemma_split_leading_sep(r, SLASH);
        let parts = split_spec(r, SLASH);
        assert(comp_ok(parts[0]));
    }
}

proof fn lemma_dest_path_shape(a: Seq<u8>)
    requires valid_bytes(a),
    ensures ({
        let d = restore_dest();
        let dd = if d.len() == 0 || d.last() == SLASH { d } else { d.push(SLASH) };
        dest_path(a) == dd + a.skip(1)
    }),
{
    reveal(dest_path);
    let d = restore_dest();
    let r = a.skip(1);
    if a.len() > 1 { lemma_valid_second_byte(a); }
    if !(d.len() == 0 || d.last() == SLASH) {
        assert(d.push(SLASH) + r =~= path_join(d, r));
    }
}

proof fn lemma_apath_above_is_path_above(p: Seq<u8>, a: Seq<u8>)
    requires valid_bytes(p), valid_bytes(a),
    ensures apath_above(p, a) <==> path_above(dest_path(p), dest_path(a)),
{
    let d = restore_dest();
    let dd = if d.len() == 0 || d.last() == SLASH { d } else { d.push(SLASH) };
    lemma_dest_path_shape(p);
    lemma_dest_path_shape(a);
    let pp = dd + p.skip(1);
    let qq = dd + a.skip(1);
    let n = pp.len() as int;
    if p.len() < a.len() {
        assert(qq[n] == a[p.len() as int]);
        if a.take(p.len() as int) == p {
            assert(qq.take(n) =~= pp);
        }
        if qq.take(n) == pp {
            assert forall|k: int| 0 <= k < p.len() implies a.take(p.len() as int)[k] == #[trigger] p[k] by {
                if k >= 1 {
                    assert(qq.take(n)[dd.len() + k - 1] == pp[dd.len() + k - 1]);
                }
            }
            assert(a.take(p.len() as int) =~= p);
        }
    }
}

// std::collections::HashSet<String> (R3, same-named shim; view = the set of the UTF-8 byte strings of its members).
// ASSUMED: the documented behaviour of std's HashSet for `String` keys (Hash/Eq of a String are those of its bytes;
// `contains` takes any borrowed form of the key: `&str` through `String: Borrow<str>`).
#[verifier::external_body]
#[verifier::reject_recursive_types(K)]
struct HashSet<K> { inner: std::collections::HashSet<K> }

impl HashSet<String> {
    uninterp spec fn view(&self) -> Set<Seq<u8>>;

    // HashSet::new: "Creates an empty HashSet."
    #[verifier::external_body]
    fn new() -> (r: Self)
        ensures r@ == Set::<Seq<u8>>::empty(),
    { HashSet { inner: std::collections::HashSet::new() } }

    // HashSet::insert: "Adds a value to the set. Returns whether the value was newly inserted."
    #[verifier::external_body]
    fn insert(&mut self, k: String) -> (r: bool)
        ensures
            final(self)@ == old(self)@.insert(bytes_of(k@)),
            r == !old(self)@.contains(bytes_of(k@)),
    { self.inner.insert(k) }

    // HashSet::contains: "Returns true if the set contains a value."
    #[verifier::external_body]
    fn contains(&self, k: &str) -> (r: bool)
        ensures r == self@.contains(k.spec_bytes()),
    { self.inner.contains(k) }
}

impl Apath {
    // `ToString` through `impl Display for Apath` (src/apath.rs: `write!(fmt, "{}", self.0)`): the text of the apath.
    // (`<Apath as Display>::fmt` is under contract in unit `leaves`.)
    #[verifier::external_body]
    fn to_string(&self) -> (r: String)
        ensures r@ == self@,
    { self.0.clone() }
}

// std: `&s[..i]` (`Index<RangeTo<usize>> for str`): the first i bytes.  std panics iff i is not on a char boundary
// (`str::is_char_boundary`: 0, len, or a byte that is not a UTF-8 continuation byte 0b10xxxxxx); the precondition
// states exactly that no-panic condition.
#[verifier::external_body]
fn shim_str_prefix(s: &str, i: usize) -> (r: &str)
    requires
        i <= s.spec_bytes().len(),
        i == 0 || i == s.spec_bytes().len() || !(0x80 <= s.spec_bytes()[i as int] < 0xC0),
    ensures r.spec_bytes() == s.spec_bytes().take(i as int),
{ &s[..i] }

// std: `&s[..=i]` (`Index<RangeToInclusive<usize>> for str`) = `&s[..i + 1]`: the first i+1 bytes; panics iff
// i + 1 is past the end or not on a char boundary.  (Not used by the unchanged tree; present so that an edit of the
// slice bound is judged rather than rejected.)
#[verifier::external_body]
fn shim_str_prefix_incl(s: &str, i: usize) -> (r: &str)
    requires
        i < s.spec_bytes().len(),
        i + 1 == s.spec_bytes().len() || !(0x80 <= s.spec_bytes()[i as int + 1] < 0xC0),
    ensures r.spec_bytes() == s.spec_bytes().take(i as int + 1),
{ &s[..=i] }

// R5: `format!("{:?}...", apath)` in an error payload; no contract mentions the text.
#[verifier::external_body]
fn shim_fmt_debug_then(a: &Apath, suffix: &str) -> (r: String)
{ format!("{:?}{}", a.0, suffix) }
