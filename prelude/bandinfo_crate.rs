// ---- bandinfo_crate: the crate-side declarations of unit `bandinfo` (expanded INSIDE `mod krate { use super::*; .. }`) ----
// `Error` / `Result` declared here shadow jsonio's (glob-imported from the root), exactly as `crate::Error` and
// `crate::jsonio::Error` are two types in the sources.

// crate::Error (src/errors.rs), reduced (R3/R5) to the variants an extracted body constructs or a contract of this unit
// distinguishes.  `Other` = every other variant; in particular what `impl From<transport::Error>` (`Transport { #[from]
// source }`) and `impl From<jsonio::Error>` (IOError / DeserializeJson / Transport) build -- the same folding as in
// band_shims.rs, select_types.rs and gc_shims.rs.
enum Error {
    BandHeadMissing { band_id: BandId },
    InvalidMetadata { details: String },
    NoCompleteBands,
    ArchiveEmpty,
    Other,
}

type Result<T> = std::result::Result<T, Error>;

// src/errors.rs `Transport { #[from] source: transport::Error }`
impl From<TransportError> for Error {
    #[verifier::external_body]
    fn from(source: TransportError) -> (r: Error)
        ensures r is Other,
    { Error::Other }
}

// src/errors.rs `impl From<jsonio::Error> for Error` (three arms: IOError / DeserializeJson / Transport, all `Other` here)
impl From<super::Error> for Error {
    #[verifier::external_body]
    fn from(value: super::Error) -> (r: Error)
        ensures r is Other,
    { Error::Other }
}

// ASSUMED: what `?` does with these errors (vstd models the conversion in `?` by the relation `spec_from`); same
// idiom as band_shims.rs.
mod bandinfo_from_axioms {
    use super::*;
    #[verifier::external_body]
    pub broadcast proof fn axiom_error_from_transport_error(e: TransportError, r: Error)
        requires #[trigger] vstd::std_specs::control_flow::spec_from::<Error, TransportError>(e, r),
        ensures r is Other,
    { }
    #[verifier::external_body]
    pub broadcast proof fn axiom_error_from_jsonio_error(e: super::super::Error, r: Error)
        requires #[trigger] vstd::std_specs::control_flow::spec_from::<Error, super::super::Error>(e, r),
        ensures r is Other,
    { }
}
broadcast use {bandinfo_from_axioms::axiom_error_from_transport_error, bandinfo_from_axioms::axiom_error_from_jsonio_error};

// ---------- the two json documents of a band directory, and Band / Info / Archive (R11: real declarations) ----------
//@@ type src/band.rs | struct Head
//@ rewrite
Cow<'static, str> ==> CowStr
//@@ end

//@@ type src/band.rs | struct Tail
//@@ end

//@@ type src/band.rs | struct Band
//@@ end

//@@ type src/band.rs | struct Info
//@@ end

//@@ type src/archive.rs | struct Archive
//@@ end

//@@ type src/band.rs | enum BandSelectionPolicy
//@@ end

//@@ type src/stored_tree.rs | struct StoredTree
//@@ end

//@@ type src/index/mod.rs | struct IndexRead
//@@ end

// serde `#[derive(Deserialize)]` on Head and Tail: the decoders are uninterpreted (C10: ANY decoded value may come out).
uninterp spec fn head_json_decode(b: Seq<u8>) -> Option<Head>;
uninterp spec fn tail_json_decode(b: Seq<u8>) -> Option<Tail>;

impl DeserializeOwned for Head {
    closed spec fn json_decode(b: Seq<u8>) -> Option<Self> { head_json_decode(b) }
}

impl DeserializeOwned for Tail {
    closed spec fn json_decode(b: Seq<u8>) -> Option<Self> { tail_json_decode(b) }
}

// ---------- what get_info must answer (written from format.md "Band tail file" and the C09/C10/C03 statements) ----------
// the outcome of reading BANDTAIL through a transport pointing at the band directory (jsonio's read_json_spec:
// Ok(None) = no such file, Err = storage fault or undecodable document)
spec fn tail_read(t: Transport) -> std::result::Result<Option<Tail>, ()> {
    read_json_spec::<Tail>(&t, "BANDTAIL"@)
}

// format.md: `index_hunk_count`: "The number of index hunks that should be present for this band."  None: no tail, or a
// tail written before 0.6.4.
spec fn tail_count(o: Option<Tail>) -> Option<u64> {
    match o { Some(t) => t.index_hunk_count, None => None }
}

// Why get_info may fail -- and nothing else may make it fail
enum InfoErr { TailUnreadable, InvalidTime }

spec fn info_err_of(tail: std::result::Result<Option<Tail>, ()>, start_time: i64) -> Option<InfoErr> {
    match tail {
        Err(_) => Some(InfoErr::TailUnreadable),
        Ok(o) =>
            if !ts_second_ok(start_time) { Some(InfoErr::InvalidTime) }
            else if o matches Some(t) && !ts_second_ok(t.end_time) { Some(InfoErr::InvalidTime) }
            else { None },
    }
}

spec fn info_err(b: Band) -> Option<InfoErr> { info_err_of(tail_read(b.transport), b.head.start_time) }

// band's "what reading BANDHEAD of band directory `dir` yields during this operation" (uninterpreted in band_shims.rs):
// DEFINED as in units/jsonio.vu (LINK band): jsonio's read outcome through some transport pointing at `dir`.
spec fn bridge_band_transport_at(dir: Seq<u8>) -> Transport { choose|t: Transport| t.dir() == dir }
spec fn head_read(dir: Seq<u8>) -> std::result::Result<Option<Head>, ()> {
    read_json_spec::<Head>(&bridge_band_transport_at(dir), "BANDHEAD"@)
}

impl Archive {
    // (band_shims.rs, same text)
    spec fn root(&self) -> Seq<u8> { self.transport.dir() }

    // (select_types.rs, same text) the band directories present in this archive
    spec fn band_set(&self) -> Set<BandId> { self.transport.root_band_ids() }

    // the directory of band `id` of this archive
    spec fn band_dir(&self, id: BandId) -> Seq<u8> { path_join(self.root(), band_dir_name(id.0)) }

    // "BANDTAIL of band id exists" = the version is complete (doc/format.md).  Same text as the bridge definition in
    // units/band.vu (LINK select): the probe Band::is_closed is proved to make.
    spec fn closed(&self, id: BandId) -> bool {
        file_probe(path_join(self.root(), band_dir_name(id.0)), "BANDTAIL"@) == Ok::<bool, ()>(true)
    }

    // select's knowledge "opening band id failed because it has no BANDHEAD" (a half-deleted band): here, where the
    // head's read outcome is modelled, it is the outcome `Ok(None)`
    spec fn head_missing(&self, id: BandId) -> bool {
        head_read(self.band_dir(id)) == Ok::<Option<Head>, ()>(None)
    }

    // "BANDHEAD of band id exists" = the version exists (stitch_types.rs m_exists)
    spec fn exists(&self, id: BandId) -> bool {
        file_probe(path_join(self.root(), band_dir_name(id.0)), "BANDHEAD"@) == Ok::<bool, ()>(true)
    }
}

// `#[derive(Clone)]` on Archive: a second handle on the same transport (stitch_types.rs, same contract)
impl Clone for Archive {
    #[verifier::external_body]
    fn clone(&self) -> (r: Self)
        ensures r == *self,
    { unimplemented!() }
}

impl Band {
    // (units/band.vu, same text) every Band value denotes a band directory whose head exists (C03-O3)
    spec fn wf(&self) -> bool { head_written(self.transport.dir()) }

    // representation invariant of Band values (unit band: ensured by create_with_flags, C13.band_directory_name, and by
    // open, C03.O3_head_first): the transport points at <root of the archive>/<band dir name of band_id>
    spec fn located_in(&self, a: Archive) -> bool { self.transport.dir() == path_join(a.root(), band_dir_name(self.band_id.0)) }
}

// ---------- Stitch (src/index/stitch.rs, unit `stitch`), opaque here ----------
// Unit stitch PROVES of Stitch::new (C08+C03+C14+C02.stitch_follows_rule, C12.subtree_filter_exact, C15.filter_on_read):
//     r.remaining() == listing_spec(*archive, band_id.0, subtree.bytes(), exclude)
// i.e. what the stitcher will yield is a function of exactly these four arguments.  `listing_of()` names them; the
// shim below ASSUMES only that `new` records its arguments (restated by hand: stitch's vocabulary -- opaque Archive and
// Band, the hunk model -- cannot live in one module with the real Archive/Band declarations of this unit).
#[verifier::external_body]
struct Stitch { _p: () }

impl Stitch {
    uninterp spec fn listing_of(&self) -> (Archive, BandId, Seq<char>, Exclude);

    #[verifier::external_body]
    fn new(archive: &Archive, band_id: BandId, subtree: Apath, exclude: Exclude, monitor: MonitorArc) -> (r: Stitch)
        ensures r.listing_of() == (*archive, band_id, subtree@, exclude),
    { unimplemented!() }
}

// ---------- IndexWriter (src/index/write.rs, unit `indexwriter`), opaque here ----------
// Unit indexwriter PROVES of IndexWriter::new: `r.tid() == transport.id()` (the writer keeps the transport it was given:
// every hunk goes into that directory).  Restated over this unit's `dir()`.
#[verifier::external_body]
struct IndexWriter { _p: () }

impl IndexWriter {
    uninterp spec fn tdir(&self) -> Seq<u8>;

    #[verifier::external_body]
    fn new(transport: Transport, monitor: MonitorArc) -> (r: IndexWriter)
        ensures r.tdir() == transport.dir(),
    { unimplemented!() }
}

// ---------- bridge vocabulary of LINK validate (Band::get_info): see units/bandinfo.vu ----------
// validate's ErrTag (validate_types.rs) with the opaque payload of `Other` dropped
enum ErrTag {
    BandHeadMissing(BandId),
    InvalidMetadata,
    Other,
}

spec fn tag_of(e: Error) -> ErrTag {
    match e {
        Error::BandHeadMissing { band_id } => ErrTag::BandHeadMissing(band_id),
        Error::InvalidMetadata { details } => ErrTag::InvalidMetadata,
        _ => ErrTag::Other,
    }
}

impl Archive {
    spec fn sp_tail_count(&self, id: BandId) -> Option<u64> {
        match tail_read(bridge_band_transport_at(self.band_dir(id))) { Ok(o) => tail_count(o), Err(_) => None }
    }

    spec fn sp_info_err(&self, id: BandId) -> Option<ErrTag> {
        match head_read(self.band_dir(id)) {
            Ok(Some(h)) => match info_err_of(tail_read(bridge_band_transport_at(self.band_dir(id))), h.start_time) {
                Some(InfoErr::TailUnreadable) => Some(ErrTag::Other),
                Some(InfoErr::InvalidTime) => Some(ErrTag::InvalidMetadata),
                None => None,
            },
            _ => None,
        }
    }
}

// ---------- bridge vocabulary of LINK validate / gc (Band::index): see units/bandinfo.vu ----------
impl IndexRead {
    // this reader's transport points at the index directory of band p.1 of archive p.0
    spec fn reads_pair(&self, p: (Archive, BandId)) -> bool {
        self.transport.dir() == path_join(p.0.band_dir(p.1), "i".spec_bytes())
    }
    spec fn home(&self) -> Archive { (choose|p: (Archive, BandId)| self.reads_pair(p)).0 }
    spec fn sid(&self) -> BandId { (choose|p: (Archive, BandId)| self.reads_pair(p)).1 }
    // gc_shims.rs names
    spec fn band_home(&self) -> Archive { self.home() }
    spec fn band_sid(&self) -> BandId { self.sid() }
}
