// ---- band_shims: vocabulary and ASSUMED contracts for unit `band` (src/band.rs, src/bandid.rs) ----
// Written from doc/format.md "Bands", "Band head file", "Band tail file" and the statements of C03/C07/C10/C13.
//@@ include apath_spec.rs
//@@ include indexwriter_decimal.rs

//@@ type src/bandid.rs | struct BandId derive=Clone,Copy
//@@ end

// format.md: "Bands are represented as a subdirectory within the archive directory, as `b` followed by the number",
// "zero-padded to four digits ... bands numbered over 9999 are supported".
spec fn band_dir_name(n: u32) -> Seq<u8> { seq![0x62u8] + dec_pad(n as nat, 4) }

// C07: a new id above every existing one means a directory name different from every existing one
proof fn lemma_band_dir_name_injective(n: u32, m: u32)
    ensures band_dir_name(n) == band_dir_name(m) ==> n == m, //# C07.band_dir_names_distinct
{
    lemma_dec_pad(n as nat, 4);
    lemma_dec_pad(m as nat, 4);
    assert(band_dir_name(n).skip(1) =~= dec_pad(n as nat, 4));
    assert(band_dir_name(m).skip(1) =~= dec_pad(m as nat, 4));
}

// Transport::chdir (src/transport.rs): "" stays, otherwise components are joined with '/'.
spec fn path_join(d: Seq<u8>, p: Seq<u8>) -> Seq<u8> {
    if p.len() == 0 { d } else if d.len() == 0 { p } else { d + seq![SLASH] + p }
}

// ---------- monotone knowledge (DESIGN 4.3; only ever used positively) ----------
// BANDHEAD exists in the band directory `dir` (path relative to the transport root)
uninterp spec fn head_written(dir: Seq<u8>) -> bool;

// BANDTAIL exists in band directory `dir` and states this index_hunk_count
uninterp spec fn tail_written(dir: Seq<u8>, count: Option<u64>) -> bool;

// directory `name` was created under `dir`
uninterp spec fn subdir_made(dir: Seq<u8>, name: Seq<u8>) -> bool;

// what probing "is `name` a file in directory `dir`" yields during this operation (one task, nobody else writes: C06 is
// out of reach): Ok(present) or Err = storage fault
uninterp spec fn file_probe(dir: Seq<u8>, name: Seq<char>) -> std::result::Result<bool, ()>;

// ---------- guarded destruction (DESIGN 4.4) ----------
// the caller's plan allows removing directory `name` (recursively) under `dir`.  Never defined: it can only come
// from a precondition, so a removal of anything the caller did not name is unprovable.
uninterp spec fn may_remove_dir(dir: Seq<u8>, name: Seq<u8>) -> bool;

// ---------- crate::Error, reduced to the variants this unit constructs or distinguishes (R3/R5) ----------
enum Error {
    BandHeadMissing { band_id: BandId },
    UnsupportedBandVersion { band_id: BandId, version: String },
    UnsupportedBandFormatFlags { band_id: BandId, unsupported_flags: Vec<CowStr> },
    BandNotFound { band_id: BandId },
    InvalidVersion { version: String },
    Other,
}

type Result<T> = std::result::Result<T, Error>;

// transport::Error and jsonio::Error: opaque; `?` and `Error::from` convert them as in the crate (to variants that no
// contract here distinguishes: `Other`).
#[verifier::external_body]
struct TransportError { _p: () }

impl TransportError {
    uninterp spec fn not_found(&self) -> bool;

    #[verifier::external_body]
    fn is_not_found(&self) -> (r: bool)
        ensures r == self.not_found(),
    { unimplemented!() }
}

#[verifier::external_body]
struct JsonioError { _p: () }

impl From<TransportError> for Error {
    #[verifier::external_body]
    fn from(e: TransportError) -> (r: Error)
        ensures r is Other,
    { Error::Other }
}

impl From<JsonioError> for Error {
    #[verifier::external_body]
    fn from(e: JsonioError) -> (r: Error)
        ensures r is Other,
    { Error::Other }
}

// ASSUMED: what `?` does with these errors (vstd models the conversion in `?` by the relation `spec_from`).
mod band_from_axioms {
    use super::*;
    #[verifier::external_body]
    pub broadcast proof fn axiom_error_from_transport_error(e: TransportError, r: Error)
        requires #[trigger] vstd::std_specs::control_flow::spec_from::<Error, TransportError>(e, r),
        ensures r is Other,
    { }
    #[verifier::external_body]
    pub broadcast proof fn axiom_error_from_jsonio_error(e: JsonioError, r: Error)
        requires #[trigger] vstd::std_specs::control_flow::spec_from::<Error, JsonioError>(e, r),
        ensures r is Other,
    { }
}
broadcast use {band_from_axioms::axiom_error_from_transport_error, band_from_axioms::axiom_error_from_jsonio_error};

// Cow<'static, str> (a format flag): an immutable string.  R3 type rename `Cow<'static, str>` -> `CowStr`.
#[verifier::external_body]
struct CowStr { inner: std::borrow::Cow<'static, str> }

impl CowStr {
    pub uninterp spec fn view(&self) -> Seq<char>;
}

impl Clone for CowStr {
    #[verifier::external_body]
    fn clone(&self) -> (r: Self)
        ensures r@ == self@,
    { CowStr { inner: self.inner.clone() } }
}

// member of `band::flags::SUPPORTED` (currently the empty list; the contracts do not depend on its content)
uninterp spec fn flag_supported(f: Seq<char>) -> bool;

spec fn all_flags_supported(fs: Seq<CowStr>) -> bool {
    forall|i: int| 0 <= i < fs.len() ==> flag_supported(#[trigger] fs[i]@)
}

// ---------- Transport, as seen by Band ----------
// `dir()` is the directory the transport points at, relative to the archive root.
#[verifier::external_body]
struct Transport { _p: () }

// permission to remove one file below a directory: never granted in this unit
uninterp spec fn file_removal_granted(dir: Seq<u8>, relpath: Seq<u8>) -> bool;

impl Transport {
    uninterp spec fn dir(&self) -> Seq<u8>;

    #[verifier::external_body]
    fn chdir(&self, relpath: &str) -> (r: Transport)
        ensures r.dir() == path_join(self.dir(), relpath.spec_bytes()),
    { unimplemented!() }

    #[verifier::external_body]
    async fn create_dir(&self, relpath: &str) -> (r: std::result::Result<(), TransportError>)
        ensures r is Ok ==> subdir_made(self.dir(), relpath.spec_bytes()),
    { unimplemented!() }

    // Transport::is_file (src/transport.rs): Ok(true) iff `path` names a regular file, Ok(false) if it is absent or
    // something else, Err on a storage fault.  `file_probe` is the outcome function (see head_read below for the idiom).
    #[verifier::external_body]
    async fn is_file(&self, path: &str) -> (r: std::result::Result<bool, TransportError>)
        ensures
            r matches Ok(b) ==> file_probe(self.dir(), path@) == Ok::<bool, ()>(b),
            r is Err ==> file_probe(self.dir(), path@) is Err,
    { unimplemented!() }

    // DESTRUCTIVE (4.4): no function of this unit may remove a single file (Band::delete removes the band directory as
    // a whole, below): the permission is never granted, a call added by an edit fails this labelled precondition.
    #[verifier::external_body]
    async fn remove_file(&self, relpath: &str) -> (r: std::result::Result<(), TransportError>)
        requires
            file_removal_granted(self.dir(), relpath.spec_bytes()), //# C07.backup_never_removes_archive_files
    { unimplemented!() }

    // DESTRUCTIVE (4.4): only what the caller's plan names may be removed.
    #[verifier::external_body]
    async fn remove_dir_all(&self, relpath: &str) -> (r: std::result::Result<(), TransportError>)
        requires
            may_remove_dir(self.dir(), relpath.spec_bytes()), //# C05+C07.delete_only_that_band
    { unimplemented!() }
}

//@@ type src/archive.rs | struct Archive
//@@ end

impl Archive {
    spec fn root(&self) -> Seq<u8> { self.transport.dir() }

    // ids of the band directories present in the archive when the current operation started (one task, nobody else
    // writes: C06 is out of reach).  Never used to describe the state after this operation's own writes.
    uninterp spec fn band_set(&self) -> Set<u32>;

    // Contract proved in unit `select` (Archive::last_band_id: C02.latest_is_greatest_id / latest_none_iff_no_bands),
    // restated over this unit's vocabulary.
    #[verifier::external_body]
    async fn last_band_id(&self) -> (r: Result<Option<BandId>>)
        ensures
            r matches Ok(None) ==> self.band_set() =~= Set::<u32>::empty(),
            r matches Ok(Some(m)) ==> self.band_set().contains(m.0) && forall|x: u32| self.band_set().contains(x) ==> x <= m.0,
            r matches Err(e) ==> e is Other,
    { unimplemented!() }
}

// ---------- BandId as text (src/bandid.rs `impl Display`, `impl FromStr`) ----------
// std::fmt::Formatter (R3 shim).  `out()` = the bytes emitted so far; `plain()` = a formatter as `ToString::to_string`
// and a bare `{}` make it: no width/precision/fill options, writing into a String (which cannot fail).
#[verifier::external_body]
struct Formatter { _p: () }

#[verifier::external_body]
struct FmtError { _p: () }

// (`Result::expect` needs `E: Debug`)
#[verifier::external]
impl std::fmt::Debug for FmtError {
    fn fmt(&self, f: &mut std::fmt::Formatter<'_>) -> std::fmt::Result { f.write_str("fmt error") }
}

// std::fmt::Result
type FmtResult = std::result::Result<(), FmtError>;

impl Formatter {
    uninterp spec fn out(&self) -> Seq<u8>;
    uninterp spec fn plain(&self) -> bool;

    // std `Formatter::pad`: "takes a string slice and emits it to the internal buffer after applying the relevant
    // formatting flags specified": with no flags the slice is emitted as it is.
    #[verifier::external_body]
    fn pad(&mut self, s: &str) -> (r: FmtResult)
        ensures
            final(self).plain() == old(self).plain(),
            old(self).plain() ==> r is Ok && final(self).out() == old(self).out() + s.spec_bytes(),
    { unimplemented!() }

    // the two ends of std's `impl<T: fmt::Display + ?Sized> ToString for T` (see BandId::to_string below)
    #[verifier::external_body]
    fn shim_new_for_to_string() -> (r: Formatter)
        ensures r.plain(), r.out() == Seq::<u8>::empty(),
    { unimplemented!() /* let mut buf = String::new(); Formatter::new(&mut buf) */ }

    #[verifier::external_body]
    fn shim_into_string(self) -> (r: String)
        ensures bytes_of(r@) == self.out(),
    { unimplemented!() /* buf */ }
}

// R5: `format!("b{:0>W}", n)` for an unsigned n: 'b', then n in decimal right-aligned in W columns filled with '0'
// (std::fmt: fill '0', alignment '>', width W; a longer number is not truncated).
#[verifier::external_body]
fn shim_fmt_b_zero_padded(n: u32, width: usize) -> (r: String)
    ensures bytes_of(r@) == seq![0x62u8] + dec_pad(n as nat, width as nat),
{ unimplemented!() /* format!("b{:0>width$}", n) */ }

// R4: `s.strip_prefix(c)` for an ASCII char c (std: "Returns a string slice with the prefix removed ... If the string
// does not start with prefix, returns None").
#[verifier::external_body]
fn shim_strip_prefix_char<'a>(s: &'a str, c: char) -> (r: Option<&'a str>)
    requires (c as u32) < 0x80,
    ensures
        match r {
            Some(t) => s.spec_bytes().len() > 0 && s.spec_bytes()[0] == c as u8 && t.spec_bytes() == s.spec_bytes().skip(1),
            None => s.spec_bytes().len() == 0 || s.spec_bytes()[0] != c as u8,
        },
{ s.strip_prefix(c) }

// core::num `impl FromStr for u32` (radix 10), written out: an optional leading '+', then ONE OR MORE ASCII digits,
// and the value must fit u32.  Everything else -- empty text, a lone sign, '-', any other byte, overflow -- is an Err
// (never a panic: C10).
spec fn parse_u32_spec(b: Seq<u8>) -> Option<u32> {
    let d = if b.len() > 0 && b[0] == 0x2bu8 { b.skip(1) } else { b };
    if d.len() > 0 && all_digits(d) && dec_value(d) <= u32::MAX { Some(dec_value(d) as u32) } else { None }
}

#[verifier::external_body]
struct ParseIntError { _p: () }

// (`Result::unwrap` needs `E: Debug`; only reachable after an edit of the source)
#[verifier::external]
impl std::fmt::Debug for ParseIntError {
    fn fmt(&self, f: &mut std::fmt::Formatter<'_>) -> std::fmt::Result { f.write_str("parse int error") }
}

// R4: `text.parse::<u32>()`
#[verifier::external_body]
fn shim_parse_u32(s: &str) -> (r: std::result::Result<u32, ParseIntError>)
    ensures
        r is Ok <==> parse_u32_spec(s.spec_bytes()) is Some,
        r matches Ok(v) ==> parse_u32_spec(s.spec_bytes()) == Some(v),
{ unimplemented!() /* s.parse::<u32>() */ }

// R5: `s.into()` as the payload of Error::InvalidVersion (a copy of the text; no contract speaks about it)
#[verifier::external_body]
fn shim_str_into_string(s: &str) -> (r: String)
    ensures r@ == s@,
{ s.into() }

// What BandId::from_str must accept (format.md "Bands": `b` followed by the number): 'b' then a u32 in decimal.
spec fn band_id_parse(b: Seq<u8>) -> Option<u32> {
    if b.len() > 0 && b[0] == 0x62u8 { parse_u32_spec(b.skip(1)) } else { None }
}

// ROUND TRIP: the directory name Display emits for an id parses back to that id (so a band that was created is found
// again by list_band_ids under the same id: C07 "a new version always gets an id above every existing one" relies on it).
proof fn lemma_band_id_round_trip(n: u32)
    ensures band_id_parse(band_dir_name(n)) == Some(n), //# C13.band_dir_name_round_trip,C07.band_dir_name_round_trip
{
    lemma_dec_pad(n as nat, 4);
    lemma_dec_digits(n as nat);
    let d = dec_pad(n as nat, 4);
    assert(d.len() >= 1);
    assert(band_dir_name(n).skip(1) =~= d);
    assert(is_digit(d[0]));
}

impl BandId {
    // std's blanket `impl<T: fmt::Display + ?Sized> ToString for T`, transcribed:
    //     let mut buf = String::new();
    //     let mut formatter = core::fmt::Formatter::new(&mut buf);
    //     fmt::Display::fmt(self, &mut formatter).expect("a Display implementation returned an error unexpectedly");
    //     buf
    // VERIFIED against the contract PROVED for the real `<BandId as Display>::fmt` (units/band.vu); it used to be an
    // assumed contract.  (What stays assumed: Formatter::pad, the format! shim, the two ends of the formatter.)
    fn to_string(&self) -> (r: String)
        ensures bytes_of(r@) == band_dir_name(self.0),
    {
        let mut formatter = Formatter::shim_new_for_to_string();
        self.fmt(&mut formatter).expect("a Display implementation returned an error unexpectedly");
        proof { assert(Seq::<u8>::empty() + band_dir_name(self.0) =~= band_dir_name(self.0)); }
        formatter.shim_into_string()
    }
}

// jiff::Timestamp: opaque; timestamps enter only BANDHEAD/BANDTAIL and no contract speaks about their value.
#[verifier::external_body]
struct Timestamp { _p: () }

impl Timestamp {
    #[verifier::external_body]
    fn now() -> (r: Timestamp) { unimplemented!() }

    #[verifier::external_body]
    fn as_second(&self) -> (r: i64) { unimplemented!() }
}

// ---------- the two json documents of a band directory ----------

//@@ type src/band.rs | struct Head
//@ rewrite
Cow<'static, str> ==> CowStr
//@@ end

//@@ type src/band.rs | struct Tail
//@@ end

//@@ type src/band.rs | struct Band
//@@ end

//@@ type src/band.rs | static INDEX_DIR
//@ rewrite
static INDEX_DIR: &str ==> const INDEX_DIR: &'static str
//@@ end

//@@ type src/lib.rs | static BAND_HEAD_FILENAME
//@ rewrite
static BAND_HEAD_FILENAME: &str ==> const BAND_HEAD_FILENAME: &'static str
//@@ end

//@@ type src/lib.rs | static BAND_TAIL_FILENAME
//@ rewrite
static BAND_TAIL_FILENAME: &str ==> const BAND_TAIL_FILENAME: &'static str
//@@ end

enum DocKind { Head, Tail(Option<u64>) }

trait JsonDoc {
    spec fn doc_kind(&self) -> DocKind;
}

impl JsonDoc for Head {
    spec fn doc_kind(&self) -> DocKind { DocKind::Head }
}

impl JsonDoc for Tail {
    // format.md: `index_hunk_count`: "The number of index hunks that should be present for this band."
    spec fn doc_kind(&self) -> DocKind { DocKind::Tail(self.index_hunk_count) }
}

// jsonio::write_json (src/jsonio.rs): serialises `obj` and writes it to `relpath` with WriteMode::CreateNew (ASSUMED
// here; C07 for this write is an obligation of whoever brings jsonio under contract).
// The precondition IS the protocol of a band directory (C03-O3): the only files are BANDHEAD and BANDTAIL, the head
// document goes to BANDHEAD, and a tail is only ever written into a directory whose head exists.
#[verifier::external_body]
async fn write_json<T: JsonDoc>(transport: &Transport, relpath: &str, obj: &T) -> (r: std::result::Result<(), JsonioError>)
    requires
        (relpath@ == "BANDHEAD"@ && obj.doc_kind() is Head)
            || (relpath@ == "BANDTAIL"@ && obj.doc_kind() is Tail && head_written(transport.dir())), //# C03.O3_head_first
    ensures
        r is Ok && obj.doc_kind() is Head ==> head_written(transport.dir()),
        r is Ok && obj.doc_kind() is Tail ==> tail_written(transport.dir(), obj.doc_kind()->Tail_0),
{ unimplemented!() }

// what reading BANDHEAD of band directory `dir` yields during this operation: Err = storage/decoding error,
// Ok(None) = no such file, Ok(Some(h)) = ANY decoded head (C10: arbitrary decoded values)
uninterp spec fn head_read(dir: Seq<u8>) -> std::result::Result<Option<Head>, ()>;

// jsonio::read_json::<Head>: returns Ok(None) when the file is missing, Err on unreadable or undecodable content.
#[verifier::external_body]
async fn read_json(transport: &Transport, path: &str) -> (r: std::result::Result<Option<Head>, JsonioError>)
    requires
        path@ == "BANDHEAD"@,
    ensures
        r matches Ok(o) ==> head_read(transport.dir()) == Ok::<Option<Head>, ()>(o),
        r is Err ==> head_read(transport.dir()) is Err,
        r matches Ok(Some(h)) ==> head_written(transport.dir()),
{ unimplemented!() }

// ---------- semver (R3 type renames: semver::Version -> SemverVersion, semver::VersionReq -> SemverVersionReq) ----------
uninterp spec fn semver_parses(s: Seq<char>) -> bool;

uninterp spec fn semver_req_parses(s: Seq<char>) -> bool;

// requirement text `req` admits version text `v`
uninterp spec fn semver_matches(req: Seq<char>, v: Seq<char>) -> bool;

// "<=" followed by crate::VERSION
uninterp spec fn le_crate_version() -> Seq<char>;

#[verifier::external_body]
struct SemverError { _p: () }

// `Result::unwrap` needs `E: Debug`
#[verifier::external]
impl std::fmt::Debug for SemverError {
    fn fmt(&self, f: &mut std::fmt::Formatter<'_>) -> std::fmt::Result { f.write_str("semver error") }
}

#[verifier::external_body]
struct SemverVersion { _p: () }

#[verifier::external_body]
struct SemverVersionReq { _p: () }

impl SemverVersion {
    uninterp spec fn text(&self) -> Seq<char>;

    // semver::Version::parse: Err (never a panic) on anything that is not a semantic version.
    #[verifier::external_body]
    fn parse(text: &str) -> (r: std::result::Result<SemverVersion, SemverError>)
        ensures
            r is Ok <==> semver_parses(text@),
            r matches Ok(v) ==> v.text() == text@,
    { unimplemented!() }
}

impl SemverVersionReq {
    uninterp spec fn text(&self) -> Seq<char>;

    #[verifier::external_body]
    fn parse(text: &str) -> (r: std::result::Result<SemverVersionReq, SemverError>)
        ensures
            r is Ok <==> semver_req_parses(text@),
            r matches Ok(v) ==> v.text() == text@,
    { unimplemented!() }

    #[verifier::external_body]
    fn matches(&self, version: &SemverVersion) -> (r: bool)
        ensures r == semver_matches(self.text(), version.text()),
    { unimplemented!() }
}

// R5: format!("<={}", crate::VERSION).  ASSUMED: CARGO_PKG_VERSION is a valid semantic version (cargo refuses to build
// otherwise), hence "<=" + VERSION is a valid requirement.
#[verifier::external_body]
fn shim_fmt_le_crate_version() -> (r: String)
    ensures
        r@ == le_crate_version(),
        semver_req_parses(le_crate_version()),
{ unimplemented!() /* format!("<={}", crate::VERSION) */ }

// ---------- std ----------

// Option::map_or_else: the documented behaviour, stated with the closures' own contracts.
pub assume_specification<T, U, D: FnOnce() -> U, F: FnOnce(T) -> U>[Option::<T>::map_or_else](o: Option<T>, default: D, f: F) -> (r: U)
    requires
        o is None ==> default.requires(()),
        o is Some ==> f.requires((o->Some_0,)),
    ensures
        o is None ==> default.ensures((), r),
        o is Some ==> f.ensures((o->Some_0,), r);

// Result::unwrap_or (not used by the pinned tree; needed to verify the one-line fix of band_version_supported).
pub assume_specification<T, E>[std::result::Result::<T, E>::unwrap_or](res: std::result::Result<T, E>, default: T) -> (o: T)
    ensures o == (match res { Ok(t) => t, Err(_) => default });

// <T as ToOwned>::to_owned for T: Clone is clone().
pub assume_specification<T: Clone>[<T as std::borrow::ToOwned>::to_owned](x: &T) -> (r: T)
    ensures call_ensures(T::clone, (x,), r);

// R4: `<&[T]>::into()` -> Vec<T> (From<&[T]> for Vec<T>): a copy of the slice.
#[verifier::external_body]
fn shim_slice_into_vec(s: &[CowStr]) -> (r: Vec<CowStr>)
    ensures r@ == s@,
{ s.into() }

// R7 (lifted verbatim from Band::create_with_flags):
//     format_flags.iter().for_each(|f| assert!(flags::SUPPORTED.contains(&f.as_ref()), "unknown flag {f:?}"));
// Contract: the assert! inside must not fire (no-panic obligation of the caller).
#[verifier::external_body]
fn r7_assert_flags_supported(format_flags: &[CowStr])
    requires
        all_flags_supported(format_flags@),
{ unimplemented!() }

// R7 (lifted verbatim from Band::open):
//     head.format_flags.iter().filter(|f| !flags::SUPPORTED.contains(&f.as_ref())).cloned().collect_vec()
// Contract: the flags that are not supported; empty iff all are supported.
#[verifier::external_body]
fn r7_unsupported_flags(format_flags: &Vec<CowStr>) -> (r: Vec<CowStr>)
    ensures
        (r@.len() == 0) <==> all_flags_supported(format_flags@),
        forall|j: int| 0 <= j < r@.len() ==> !flag_supported(#[trigger] r@[j]@),
{ unimplemented!() }
