// ---- leaves_types: the real declarations the leaf functions work on (R11) and their spec projections ----
// requires apath_type.rs, store_spec.rs (BlockHash, Address)

// the real constant (cut from the source like a type declaration, so that an edit of the size is seen)
//@@ type src/lib.rs | const BLAKE_HASH_SIZE_BYTES
//@@ end

//@@ type src/blockhash.rs | struct BlockHashParseError
//@@ end

// ---------- index entries (src/index/entry.rs) ----------
//@@ type src/kind.rs | enum Kind derive=Clone,Copy,PartialEq,Eq,Structural
//@@ end

//@@ type src/unix_mode.rs | struct UnixMode derive=Clone,Copy
//@@ end

//@@ type src/owner.rs | struct Owner
//@@ end

//@@ type src/index/entry.rs | struct IndexEntry
//@ rewrite
blockdir::Address ==> Address
//@@ end

// ---------- transport errors (src/transport/error.rs) ----------
// R3: the two foreign field types are opaque here (no leaf function looks inside them)
#[verifier::external_body]
struct ErrorSourceBox { _p: () }   // Box<dyn std::error::Error + Send + Sync>
#[verifier::external_body]
struct Url { _p: () }              // url::Url

//@@ type src/transport/error.rs | enum ErrorKind derive=Clone,Copy,PartialEq,Eq,Structural
//@@ end

//@@ type src/transport/error.rs | struct Error
//@ rewrite
Box<dyn StdError + Send + Sync> ==> ErrorSourceBox
//@@ end

// std::io::ErrorKind (a fieldless, non-exhaustive enum): transparent for Verus so that `match` sees its variants
#[verifier::external_type_specification]
pub struct ExIoErrorKind(std::io::ErrorKind);

// std::io::Error: opaque; `kind()` is a function of the error value
#[verifier::external_type_specification]
#[verifier::external_body]
pub struct ExIoError(std::io::Error);

pub uninterp spec fn io_error_kind(e: std::io::Error) -> std::io::ErrorKind;

pub assume_specification[ std::io::Error::kind ](e: &std::io::Error) -> (r: std::io::ErrorKind)
    ensures r == io_error_kind(*e);

// std::path::Path (R3: same-named opaque shim; `io_error` only hands it to Url::from_file_path)
#[verifier::external_body]
struct Path { _p: () }

impl ErrorSourceBox {
    // `Box::new(source)` unsized to `Box<dyn StdError + Send + Sync>` (no contract: nobody looks inside)
    #[verifier::external_body]
    fn shim_new(source: std::io::Error) -> (r: ErrorSourceBox)
    { unimplemented!() }
}

impl Url {
    // `Url::from_file_path(path).ok()` (crate url): the file: URL of an absolute path, None otherwise (no contract)
    #[verifier::external_body]
    fn shim_from_file_path_ok(path: &Path) -> (r: Option<Url>)
    { unimplemented!() }
}

// ---------- spec projections ----------
spec fn opt_str_view(o: Option<&str>) -> Option<Seq<char>> {
    match o { Some(s) => Some(s@), None => None }
}
spec fn opt_string_view(o: Option<String>) -> Option<Seq<char>> {
    match o { Some(s) => Some(s@), None => None }
}

// ---------- std (R4 / R5) ----------
// std: `Option<String>::as_deref()`: "Converts from Option<T> (or &Option<T>) to Option<&T::Target>": the same string,
// borrowed, or None.
#[verifier::external_body]
fn shim_opt_string_as_deref(o: &Option<String>) -> (r: Option<&str>)
    ensures opt_str_view(r) == opt_string_view(*o),
{ o.as_deref() }

// R5: `assert!(cond, "text {x:?}")`: the message is dropped, the condition is the no-panic obligation
#[verifier::external_body]
fn shim_assert(cond: bool)
    requires cond,
{ assert!(cond) }
