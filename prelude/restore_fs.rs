// ---- restore_fs: the file system as seen by `restore`, DESIGN.md 4.4 (guarded primitives) ----
//
// No file-system STATE is modelled.  Every primitive is a shim (assumed contract, the body is the forwarding
// call to the real std / filetime function where that compiles stand-alone) whose PRECONDITIONS are phrased over
// timeless, positive-only knowledge predicates.  A verifier learns such a fact only from a call that has already
// returned, so "X happens before Y" is the call-site obligation "Y requires what only X ensures".
// No knowledge predicate is ever negated.
//
// ONE restore operation is verified, for arbitrary values of its two parameters:
uninterp spec fn restore_dest() -> Seq<u8>;        // the bytes of the destination path handed to restore()
uninterp spec fn restore_overwrite() -> bool;      // options.overwrite of that call

// knowledge: `read_dir(d)` was opened and its first `next()` returned None
uninterp spec fn known_empty(d: Seq<u8>) -> bool;

// "the destination check has succeeded": the overwrite option is set, or the destination was seen empty
spec fn dest_checked() -> bool { restore_overwrite() || known_empty(restore_dest()) }

// knowledge: the stitched listing of this restore has returned None (no further entry will be restored)
uninterp spec fn listing_exhausted() -> bool;

// knowledge about single paths (bytes of the path)
uninterp spec fn created_file(p: Seq<u8>) -> bool;      // File::create(p) returned Ok in this restore
uninterp spec fn created_dir(p: Seq<u8>) -> bool;       // create_dir_all(p) returned Ok in this restore
uninterp spec fn preexisting_nondir(p: Seq<u8>) -> bool; // create_dir_all(p) said AlreadyExists (only under overwrite)
uninterp spec fn owner_applied(p: Seq<u8>) -> bool;     // lchown(p) has been attempted (Ok or Err)
uninterp spec fn mode_set(p: Seq<u8>, mode: u32) -> bool;        // chmod(p, mode) returned Ok
uninterp spec fn mtime_set(p: Seq<u8>, instant: int) -> bool;    // the mtime of p was set to that instant (ns)
uninterp spec fn link_made(p: Seq<u8>, target: Seq<u8>) -> bool; // symlink(target, p) returned Ok
uninterp spec fn received(p: Seq<u8>, content: Seq<u8>) -> bool; // the file created at p received exactly these bytes

// ---- lexical path model (unix): std `Path::join` / `PathBuf::push` ----
// "if `r` is absolute it replaces `b`; otherwise a separator is added unless `b` is empty or ends with one".
spec fn path_join(b: Seq<u8>, r: Seq<u8>) -> Seq<u8> {
    if r.len() > 0 && r[0] == SLASH { r }
    else if b.len() == 0 || b.last() == SLASH { b + r }
    else { b.push(SLASH) + r }
}

// a relative path all of whose components are normal names (not empty, ".", "..", no NUL)
spec fn rel_ok(r: Seq<u8>) -> bool {
    r.len() == 0 || {
        let parts = split_spec(r, SLASH);
        forall|i: int| 0 <= i < parts.len() ==> comp_ok(#[trigger] parts[i])
    }
}

// C16 containment, stated WITHOUT reference to apaths: p is d itself, or d followed by a separator and a
// relative path of normal components.  Such a path cannot leave d lexically (no "..", no absolute restart).
spec fn lex_inside(d: Seq<u8>, p: Seq<u8>) -> bool {
    p == d
    || ((d.len() == 0 || d.last() == SLASH) && is_byte_prefix(d, p) && rel_ok(p.skip(d.len() as int)))
    || (is_byte_prefix(d.push(SLASH), p) && rel_ok(p.skip(d.len() as int + 1)))
}

// the path `restore` uses for the root entry "/": destination.join("")
spec fn dest_root_path() -> Seq<u8> { path_join(restore_dest(), Seq::<u8>::empty()) }

// What a LINK-FOLLOWING primitive (chmod, utimes) may be applied to: something this restore created as a regular
// file or a directory, or the destination directory itself (the user designated it).
// Last disjunct = the documented hole (DESIGN 7 C16 "not covered: pre-populated destinations with overwrite"):
// `restore_dir` treats AlreadyExists from create_dir_all as success.
spec fn follow_ok(p: Seq<u8>) -> bool {
    created_file(p) || created_dir(p) || p == dest_root_path() || (restore_overwrite() && preexisting_nondir(p))
}

proof fn lemma_split_leading_sep(s: Seq<u8>, sep: u8)
    requires s.len() > 0, s[0] == sep,
    ensures split_spec(s, sep).len() >= 2, split_spec(s, sep)[0].len() == 0,
    decreases s.len()
{
    if s.len() == 1 {
        assert(s.drop_last().len() == 0);
        assert(split_spec(s.drop_last(), sep) =~= seq![Seq::<u8>::empty()]);
    } else {
        let t = s.drop_last();
        assert(t[0] == s[0]);
        lemma_split_leading_sep(t, sep);
    }
}

// THE CONTAINMENT LEMMA: joining a destination with a valid apath minus its leading '/' stays inside.
proof fn lemma_join_valid_apath_inside(d: Seq<u8>, a: Seq<u8>)
    requires valid_bytes(a),
    ensures lex_inside(d, path_join(d, a.skip(1))),
{
    let r = a.skip(1);
    if r.len() > 0 {
        if r[0] == SLASH {
            lemma_split_leading_sep(r, SLASH);
            let parts = split_spec(r, SLASH);
            assert(comp_ok(parts[0]));
        }
    }
    let p = path_join(d, r);
    if d.len() == 0 || d.last() == SLASH {
        assert(p =~= d + r);
        assert(p.subrange(0, d.len() as int) =~= d);
        assert(p.skip(d.len() as int) =~= r);
    } else {
        let ds = d.push(SLASH);
        assert(p =~= ds + r);
        assert(p.subrange(0, ds.len() as int) =~= ds);
        assert(p.skip(d.len() as int + 1) =~= r);
    }
}

// ---- Path / PathBuf (R3): one shim type; the owned/borrowed distinction carries no content here ----
#[verifier::external_body]
struct Path { inner: std::path::PathBuf }
type PathBuf = Path;

impl Path {
    pub uninterp spec fn view(&self) -> Seq<u8>;   // the bytes of the path (unix: OsStr bytes)

    // std: Path::join
    #[verifier::external_body]
    fn join<P: PathLike>(&self, p: P) -> (r: PathBuf)
        ensures r@ == path_join(self@, p.pb()),
    { unimplemented!() /* self.inner.join(p) */ }

    // std: ToOwned for Path
    #[verifier::external_body]
    fn to_owned(&self) -> (r: PathBuf)
        ensures r@ == self@,
    { Path { inner: self.inner.clone() } }
}

impl Clone for Path {
    #[verifier::external_body]
    fn clone(&self) -> (r: Self)
        ensures r@ == self@,
    { Path { inner: self.inner.clone() } }
}

// std `AsRef<Path>` (R3): the things the real code hands to path-taking functions, with the bytes they denote.
trait PathLike {
    spec fn pb(&self) -> Seq<u8>;
    // AsRef::as_ref: the same path, borrowed
    fn as_ref(&self) -> (r: &Path)
        ensures r@ == self.pb();
}
impl PathLike for Path {
    spec fn pb(&self) -> Seq<u8> { self@ }
    fn as_ref(&self) -> (r: &Path) { self }
}
impl<'a> PathLike for &'a str {
    spec fn pb(&self) -> Seq<u8> { self.spec_bytes() }
    #[verifier::external_body]
    fn as_ref(&self) -> (r: &Path) { unimplemented!() }
}
// Apath: AsRef<Path> through its string
impl PathLike for Apath {
    spec fn pb(&self) -> Seq<u8> { self.bytes() }
    #[verifier::external_body]
    fn as_ref(&self) -> (r: &Path) { unimplemented!() }
}
impl<T: PathLike> PathLike for &T {
    spec fn pb(&self) -> Seq<u8> { (**self).pb() }
    fn as_ref(&self) -> (r: &Path) { (**self).as_ref() }
}

// `Deref<Target = str> for Apath` (src/apath.rs): the string of the apath.
#[verifier::external_body]
fn shim_apath_deref(a: &Apath) -> (r: &str)
    ensures r.spec_bytes() == a.bytes(),
{ a.0.as_str() }

// ---- io::Error / io::ErrorKind / io::Result (R3) ----
#[derive(Clone, Copy, PartialEq, Eq, Structural)]
enum IoErrorKind { NotFound, PermissionDenied, AlreadyExists, Other }

mod io {
    use vstd::prelude::*;
    pub(crate) use super::IoErrorKind as ErrorKind;
    #[verifier::external_body]
    pub(crate) struct Error { inner: std::io::Error }
    impl Error {
        pub(crate) uninterp spec fn skind(&self) -> ErrorKind;
        #[verifier::external_body]
        pub(crate) fn kind(&self) -> (r: ErrorKind)
            ensures r == self.skind(),
        { unimplemented!() }
        // std: `impl From<ErrorKind> for io::Error`
        #[verifier::external_body]
        pub(crate) fn from(k: ErrorKind) -> (r: Error)
            ensures r.skind() == k,
        { unimplemented!() }
    }
    pub(crate) type Result<T> = std::result::Result<T, Error>;
}

// std: Result::or_else (no vstd spec): Ok passes through, Err is handed to the closure.
pub assume_specification<T, E, F, O: FnOnce(E) -> std::result::Result<T, F>>[ std::result::Result::<T, E>::or_else ](s: std::result::Result<T, E>, op: O) -> (r: std::result::Result<T, F>)
    requires
        s matches Err(e) ==> op.requires((e,)),
    ensures
        s matches Ok(t) ==> r == std::result::Result::<T, F>::Ok(t),
        s matches Err(e) ==> op.ensures((e,), r);

// ---- timestamps (R3).  `instant()` = nanoseconds since the epoch.  The conversions themselves are the
// subject of unit `timeconv`; here they are opaque and instant-preserving. ----
#[verifier::external_body]
struct Timestamp { t: i128 }
impl Timestamp {
    uninterp spec fn instant(&self) -> int;
    // src/unix_time.rs ToFileTime::to_file_time (contract of unit timeconv: same instant)
    #[verifier::external_body]
    fn to_file_time(&self) -> (r: FileTime)
        ensures r.instant() == self.instant(),
    { unimplemented!() }
}
#[verifier::external_body]
#[derive(Clone, Copy)]
struct FileTime { t: i128 }
impl FileTime {
    uninterp spec fn instant(&self) -> int;
}

// ---- the primitives ----

// Common guard of every primitive that creates or changes something below the destination.
spec fn may_touch(p: Seq<u8>) -> bool { dest_checked() && lex_inside(restore_dest(), p) }

// std::fs::File opened for writing (R3), with the ghost sequence of bytes written so far.
#[verifier::external_body]
struct File { inner: std::fs::File }

impl File {
    uninterp spec fn fpath(&self) -> Seq<u8>;
    uninterp spec fn written(&self) -> Seq<u8>;

    // std: File::create = open(O_WRONLY|O_CREAT|O_TRUNC).  (It follows a pre-existing link at `path`; with a
    // destination that was verified empty nothing pre-exists.  Under `overwrite` into a populated destination this
    // is outside C16's quantifier, DESIGN 7 C16 "not covered".)
    #[verifier::external_body]
    fn create<P: PathLike>(path: P) -> (r: io::Result<File>)
        requires
            dest_checked(), //# C16.refuses_nonempty_destination_first
            lex_inside(restore_dest(), path.pb()), //# C16.paths_stay_inside_destination
        ensures
            r matches Ok(f) ==> f.fpath() == path.pb() && f.written() == Seq::<u8>::empty() && created_file(path.pb()),
    { unimplemented!() /* std::fs::File::create(path) */ }

    // std: Write::write_all on a File: all of the buffer is appended, or Err.
    #[verifier::external_body]
    fn write_all(&mut self, buf: &Bytes) -> (r: io::Result<()>)
        ensures
            final(self).fpath() == old(self).fpath(),
            r is Ok ==> final(self).written() == old(self).written() + buf@,
    { unimplemented!() }

    // std: Write::flush on a File.  On Ok everything written so far has been handed to the OS: the file at
    // fpath() holds exactly written().
    #[verifier::external_body]
    fn flush(&mut self) -> (r: io::Result<()>)
        ensures
            final(self).fpath() == old(self).fpath(),
            final(self).written() == old(self).written(),
            r is Ok ==> received(old(self).fpath(), old(self).written()),
    { unimplemented!() }
}

// bytes::Bytes (R3): an immutable byte string
#[verifier::external_body]
struct Bytes { v: Vec<u8> }
impl Bytes {
    uninterp spec fn view(&self) -> Seq<u8>;
}

// filetime::set_file_handle_times: futimens on the open descriptor (no path lookup at all).
#[verifier::external_body]
fn set_file_handle_times(f: &File, atime: Option<FileTime>, mtime: Option<FileTime>) -> (r: io::Result<()>)
    ensures
        r is Ok ==> (mtime matches Some(t) ==> mtime_set(f.fpath(), t.instant())),
{ unimplemented!() }

// filetime::set_symlink_file_times: lutimes / utimensat(AT_SYMLINK_NOFOLLOW): does NOT follow a link at `p`.
#[verifier::external_body]
fn set_symlink_file_times<P: PathLike>(p: P, atime: FileTime, mtime: FileTime) -> (r: io::Result<()>)
    requires
        dest_checked(), //# C16.refuses_nonempty_destination_first
        lex_inside(restore_dest(), p.pb()), //# C16.paths_stay_inside_destination
    ensures
        r is Ok ==> mtime_set(p.pb(), mtime.instant()),
{ unimplemented!() }

mod filetime {
    use vstd::prelude::*;
    use super::*;
    // filetime::set_file_mtime: utimes / utimensat(.., 0): FOLLOWS a link at `p`.
    #[verifier::external_body]
    pub(crate) fn set_file_mtime<P: PathLike>(p: P, mtime: FileTime) -> (r: io::Result<()>)
        requires
            dest_checked(), //# C16.refuses_nonempty_destination_first
            lex_inside(restore_dest(), p.pb()), //# C16.paths_stay_inside_destination
            follow_ok(p.pb()), //# C16.never_follow_symlink,C16.symlink_only_nofollow_primitives
        ensures
            r is Ok ==> mtime_set(p.pb(), mtime.instant()),
    { unimplemented!() }
}

// std::fs::create_dir_all.  Ok: the directory exists (std returns Ok also when `is_dir()` already holds).
// Err(AlreadyExists): something that is not a directory is in the way.
// ENVIRONMENT ASSUMPTION: that can only happen under `overwrite` (without it the destination was seen empty, the
// apaths of a conserve-written archive are distinct, and nothing else writes to the destination); for the same
// reason a directory found present was made by this restore.
#[verifier::external_body]
fn create_dir_all<P: PathLike>(p: P) -> (r: io::Result<()>)
    requires
        dest_checked(), //# C16.refuses_nonempty_destination_first
        lex_inside(restore_dest(), p.pb()), //# C16.paths_stay_inside_destination
    ensures
        r is Ok ==> created_dir(p.pb()),
        r matches Err(e) ==> (e.skind() == io::ErrorKind::AlreadyExists ==> restore_overwrite() && preexisting_nondir(p.pb())),
{ unimplemented!() /* std::fs::create_dir_all(p) */ }

mod unix_fs {
    use vstd::prelude::*;
    use super::*;
    // std::os::unix::fs::symlink(target, link): creates `link`; fails with EEXIST if anything is there; never
    // touches what `target` names.
    #[verifier::external_body]
    pub(crate) fn symlink<P: PathLike, Q: PathLike>(target: P, link: Q) -> (r: io::Result<()>)
        requires
            dest_checked(), //# C16.refuses_nonempty_destination_first
            lex_inside(restore_dest(), link.pb()), //# C16.paths_stay_inside_destination
        ensures
            r is Ok ==> link_made(link.pb(), target.pb()),
    { unimplemented!() }
}

// std::fs::Permissions with PermissionsExt::from_mode (R3)
#[verifier::external_body]
struct Permissions { m: u32 }
impl Permissions {
    uninterp spec fn smode(&self) -> u32;
    #[verifier::external_body]
    fn from_mode(mode: u32) -> (r: Permissions)
        ensures r.smode() == mode,
    { Permissions { m: mode } }
}

// std::os::unix::fs::lchown: changes owner/group of `p` itself, never of what a link at `p` points to.
// POSIX/Linux: a successful chown CLEARS S_ISUID and S_ISGID of a non-directory (also for root on Linux), and
// POSIX leaves the effect on other file types to the implementation.  This is modelled as an ORDER obligation:
// the attempt yields `owner_applied(p)`, and chmod requires it (see fs::set_permissions).
#[verifier::external_body]
fn lchown<P: PathLike>(p: P, uid: Option<u32>, gid: Option<u32>) -> (r: io::Result<()>)
    requires
        dest_checked(), //# C16.refuses_nonempty_destination_first
        lex_inside(restore_dest(), p.pb()), //# C16.paths_stay_inside_destination
    ensures
        owner_applied(p.pb()),
{ unimplemented!() }

// std::os::unix::fs::chown: FOLLOWS a link at `p` (not used by the unchanged tree; present so that an edit from
// lchown to chown is judged rather than rejected).
#[verifier::external_body]
fn chown<P: PathLike>(p: P, uid: Option<u32>, gid: Option<u32>) -> (r: io::Result<()>)
    requires
        dest_checked(), //# C16.refuses_nonempty_destination_first
        lex_inside(restore_dest(), p.pb()), //# C16.paths_stay_inside_destination
        follow_ok(p.pb()), //# C16.never_follow_symlink,C16.symlink_only_nofollow_primitives
    ensures
        owner_applied(p.pb()),
{ unimplemented!() }

mod fs {
    use vstd::prelude::*;
    use super::*;

    // std::fs::set_permissions = chmod(2): FOLLOWS a link at `p`; sets exactly the bits `mode & 0o7777`.
    #[verifier::external_body]
    pub(crate) fn set_permissions<P: PathLike>(p: P, perm: Permissions) -> (r: io::Result<()>)
        requires
            dest_checked(), //# C16.refuses_nonempty_destination_first
            lex_inside(restore_dest(), p.pb()), //# C16.paths_stay_inside_destination
            follow_ok(p.pb()), //# C16.never_follow_symlink,C16.symlink_only_nofollow_primitives
            owner_applied(p.pb()), //# C01.mode_after_owner
        ensures
            r is Ok ==> mode_set(p.pb(), perm.smode()),
    { unimplemented!() }

    // std::fs::create_dir = mkdir(2): atomic; fails with AlreadyExists and changes NOTHING if anything is there.
    // It is the one primitive allowed before the destination check, and only on the destination itself.
    #[verifier::external_body]
    pub(crate) fn create_dir<P: PathLike>(p: P) -> (r: io::Result<()>)
        requires
            p.pb() == restore_dest(), //# C16.paths_stay_inside_destination
    { unimplemented!() }

    #[verifier::external_body]
    pub(crate) struct ReadDir { inner: std::fs::ReadDir }
    #[verifier::external_body]
    pub(crate) struct DirEntry { inner: std::fs::DirEntry }

    impl ReadDir {
        // ghost: the directory this handle was opened on, while no entry has been taken from it yet
        pub(crate) uninterp spec fn fresh_for(&self) -> Option<Seq<u8>>;

        // std: Iterator for ReadDir ("." and ".." are skipped): None on a fresh handle = the directory is empty.
        #[verifier::external_body]
        pub(crate) fn next(&mut self) -> (r: Option<io::Result<DirEntry>>)
            ensures
                final(self).fresh_for() == None::<Seq<u8>>,
                r is None ==> (old(self).fresh_for() matches Some(d) ==> known_empty(d)),
        { unimplemented!() }
    }

    // std::fs::read_dir: read-only.
    #[verifier::external_body]
    pub(crate) fn read_dir<P: PathLike>(p: P) -> (r: io::Result<ReadDir>)
        ensures r matches Ok(rd) ==> rd.fresh_for() == Some(p.pb()),
    { unimplemented!() }
}
