// ---- validate_model: the archive as validate sees it (ghost, uninterpreted) and the ASSUMED contracts of the
// functions of OTHER units that validate calls.  See the encoding note in validate_types.rs. ----

// R3: Archive (src/archive.rs), opaque handle.  The `sp_*` functions are the outcomes of the reads validate performs,
// as functions of the archive (timeless: nothing writes the archive while validate runs).
#[verifier::external_body]
struct Archive { _p: () }

impl Archive {
    // validate_archive_dir: None = the root directory lists and holds no duplicated band directory
    uninterp spec fn sp_dir_err(&self) -> Option<ErrTag>;
    // list_band_ids
    uninterp spec fn sp_band_ids(&self) -> std::result::Result<Seq<BandId>, ErrTag>;
    // Band::open(id): None = BANDHEAD present, decodable, supported version and flags
    uninterp spec fn sp_open_err(&self, id: BandId) -> Option<ErrTag>;
    // listing of the band directory b<id>/
    uninterp spec fn sp_band_dir(&self, id: BandId) -> std::result::Result<Seq<DirEntry>, ErrTag>;
    // open_stored_tree(Specified(id))
    uninterp spec fn sp_open_tree_err(&self, id: BandId) -> Option<ErrTag>;
    // the entries the stitched iteration of the tree of band id yields (unit `stitch`, C08)
    uninterp spec fn sp_entries(&self, id: BandId) -> Seq<IndexEntry>;
    // BANDTAIL.index_hunk_count of band id (None: band not closed, or written before 0.6.4)
    uninterp spec fn sp_tail_count(&self, id: BandId) -> Option<u64>;
    // index hunk n of band id exists, decompresses and decodes
    uninterp spec fn sp_hunk_ok(&self, id: BandId, n: int) -> bool;
    // opening the block directory d/
    uninterp spec fn sp_blockdir_err(&self) -> Option<ErrTag>;
    // the block files present (non-empty) in d/, by hash
    uninterp spec fn sp_present(&self) -> Set<Seq<u8>>;
    // BlockDir::validate: Ok(for every present block that decompresses and re-hashes to its name, its uncompressed length)
    uninterp spec fn sp_good_len(&self) -> std::result::Result<Map<Seq<u8>, usize>, ErrTag>;
}

// ---- Apath::root(), Exclude::nothing(): the arguments of the whole-tree listing ----
impl Apath {
    #[verifier::external_body]
    fn root() -> (r: Apath)
        ensures r@ == seq!['/'],
    { unimplemented!() }  // Apath("/".to_owned())  (src/apath.rs)
}

#[verifier::external_body]
struct Exclude { _p: () }

impl Exclude {
    uninterp spec fn excludes_nothing(&self) -> bool;

    #[verifier::external_body]
    fn nothing() -> (r: Exclude)
        ensures r.excludes_nothing(),
    { unimplemented!() }  // src/excludes.rs: "Exclude nothing, even items that might be excluded by default."
}

// ---- StoredTree / Stitch (R3, opaque).  ASSUMED here; the stitched order and completeness are the subject of unit
// `stitch` (C08).  `rem()` = the entries not yet yielded. ----
#[verifier::external_body]
struct StoredTree { _p: () }

impl StoredTree {
    uninterp spec fn sid(&self) -> BandId;
    uninterp spec fn home(&self) -> Archive;

    // iter_entries(subtree, exclude, monitor): with the root as subtree and nothing excluded, every entry of the tree.
    #[verifier::external_body]
    fn iter_entries(&self, subtree: Apath, exclude: Exclude, monitor: MonitorArc) -> (r: Stitch)
        ensures
            subtree@ == seq!['/'] && exclude.excludes_nothing() ==> r.rem() == self.home().sp_entries(self.sid()),
    { unimplemented!() }
}

#[verifier::external_body]
struct Stitch { _p: () }

impl Stitch {
    uninterp spec fn rem(&self) -> Seq<IndexEntry>;

    #[verifier::external_body]
    async fn next(&mut self) -> (r: Option<IndexEntry>)
        ensures
            old(self).rem().len() == 0 ==> r is None && final(self).rem() == old(self).rem(),
            old(self).rem().len() > 0 ==> r == Some(old(self).rem()[0])
                && final(self).rem() == old(self).rem().skip(1),
    { unimplemented!() }
}

// ---- what one band contributes (written from the C09 statement: a band that cannot be opened, listed or walked is
// damage and must be reported; every other band's referenced lengths count) ----
spec fn band_outcome(a: Archive, id: BandId) -> std::result::Result<Map<Seq<u8>, u64>, ErrTag> {
    if a.sp_open_err(id) is Some { Err(a.sp_open_err(id).unwrap()) }
    else if a.sp_band_dir(id) is Err { Err(a.sp_band_dir(id)->Err_0) }
    else if a.sp_open_tree_err(id) is Some { Err(a.sp_open_tree_err(id).unwrap()) }
    else if !lens_fit(a.sp_entries(id)) { Err(ErrTag::InvalidMetadata) }
    else { Ok(ref_lens(a.sp_entries(id))) }
}

spec fn band_err_reported(a: Archive, id: BandId) -> bool {
    band_outcome(a, id) matches Err(t) ==> reported(t)
}

// the referenced lengths of all bands that validated: pointwise max over them
spec fn merged(a: Archive, ids: Seq<BandId>) -> Map<Seq<u8>, u64>
    decreases ids.len()
{
    if ids.len() == 0 { Map::empty() }
    else {
        match band_outcome(a, ids.last()) {
            Ok(b) => merge_max(merged(a, ids.drop_last()), b),
            Err(_) => merged(a, ids.drop_last()),
        }
    }
}

spec fn has_name(l: Seq<DirEntry>, name: Seq<char>) -> bool {
    exists|i: int| 0 <= i < l.len() && (#[trigger] l[i]).name@ == name
}

// the band directory lists but shows no BANDHEAD
spec fn band_head_unlisted(a: Archive, id: BandId) -> bool {
    a.sp_open_err(id) is None && (a.sp_band_dir(id) matches Ok(l) && !has_name(l, BAND_HEAD_FILENAME@))
}

spec fn band_head_reported(a: Archive, id: BandId) -> bool {
    band_head_unlisted(a, id) ==> reported(ErrTag::BandHeadMissing(id))
}

// C09 statement, index hunks: "any stored file is removed or made undecodable" -- a closed band whose BANDTAIL
// promises c hunks (format.md: index_hunk_count, "to enable validation that none are missing") lacks a readable hunk
// with a number below c.
spec fn band_hunks_damaged(a: Archive, id: BandId) -> bool {
    a.sp_tail_count(id) matches Some(c) && exists|n: int| 0 <= n < c && !#[trigger] a.sp_hunk_ok(id, n)
}

// the band is reached by the hunk check (its head opens and its directory lists)
spec fn band_reachable(a: Archive, id: BandId) -> bool {
    a.sp_open_err(id) is None && a.sp_band_dir(id) is Ok
}

spec fn band_hunks_reported(a: Archive, id: BandId) -> bool {
    band_reachable(a, id) && band_hunks_damaged(a, id) ==> (a.sp_hunks_err(id) matches Some(t) && reported(t))
}

spec fn band_healthy(a: Archive, id: BandId) -> bool {
    band_outcome(a, id) is Ok && !band_head_unlisted(a, id) && a.sp_info_err(id) is None && !band_hunks_damaged(a, id)
}

spec fn bands_healthy(a: Archive, ids: Seq<BandId>) -> bool {
    forall|i: int| 0 <= i < ids.len() ==> band_healthy(a, #[trigger] ids[i])
}

impl Archive {
    // Band::get_info of band id: None = BANDTAIL absent or decodable (and the timestamps convert)
    uninterp spec fn sp_info_err(&self, id: BandId) -> Option<ErrTag>;
    // the error the index-hunk completeness check (validate_index_hunk_count) must yield for band id: the error of
    // reading BANDTAIL if that fails, else InvalidMetadata if a hunk counted by the tail is missing or unreadable.
    spec fn sp_hunks_err(&self, id: BandId) -> Option<ErrTag> {
        if self.sp_info_err(id) is Some { self.sp_info_err(id) }
        else if band_hunks_damaged(*self, id) { Some(ErrTag::InvalidMetadata) }
        else { None }
    }
    // the error BlockDir::validate reports for a present block that does not verify
    uninterp spec fn sp_block_err(&self, h: Seq<u8>) -> ErrTag;

    // the lengths referenced by all the bands of the archive
    spec fn referenced(&self) -> Map<Seq<u8>, u64> {
        merged(*self, self.sp_band_ids()->Ok_0)
    }

    // ArchiveInv as far as validate is concerned (what fault-free backups/deletes/gc are to establish: C02, C03, C05)
    spec fn healthy(&self) -> bool {
        &&& self.sp_dir_err() is None
        &&& self.sp_band_ids() is Ok
        &&& bands_healthy(*self, self.sp_band_ids()->Ok_0)
        &&& self.sp_blockdir_err() is None
        &&& self.sp_good_len() is Ok
        &&& forall|h: Seq<u8>| self.sp_present().contains(h) ==> #[trigger] (self.sp_good_len()->Ok_0).contains_key(h)
        &&& forall|h: Seq<u8>| #[trigger] self.referenced().contains_key(h) ==>
                self.sp_present().contains(h) && (self.sp_good_len()->Ok_0).contains_key(h)
                && self.referenced()[h] <= (self.sp_good_len()->Ok_0)[h] as u64
    }
}

// ---- transport (R3, opaque) ----
#[verifier::external_body]
struct Transport { _p: () }

impl Transport {
    // the outcome of listing this transport's own directory
    uninterp spec fn sp_listing(&self) -> std::result::Result<Seq<DirEntry>, ErrTag>;

    // Transport::list_dir composed with `impl From<transport::Error> for Error` (src/errors.rs `Transport { #[from]
    // source }`), which is what the `?` at the call site applies: the shim returns the converted error, so that `?`
    // is the identity conversion (Verus does not let a trait-impl `from` carry a contract over private spec fns).
    #[verifier::external_body]
    async fn list_dir(&self, relpath: &str) -> (r: Result<Vec<DirEntry>>)
        ensures
            relpath@.len() == 0 ==> match r {
                Ok(v) => self.sp_listing() == Ok::<Seq<DirEntry>, ErrTag>(v@),
                Err(e) => self.sp_listing() == Err::<Seq<DirEntry>, ErrTag>(tag_of(e)),
            },
    { unimplemented!() }
}

// ---- Band (src/band.rs): the real declaration (R11); `Head` (deserialized BANDHEAD) is opaque ----
#[verifier::external_body]
struct Head { _p: () }

//@@ type src/band.rs | struct Band
//@@ end

//@@ type src/lib.rs | static BAND_TAIL_FILENAME
//@ rewrite
static BAND_TAIL_FILENAME: &str ==> const BAND_TAIL_FILENAME: &'static str
//@@ end

//@@ type src/band.rs | static INDEX_DIR
//@ rewrite
static INDEX_DIR: &str ==> const INDEX_DIR: &'static str
//@@ end

impl Band {
    uninterp spec fn sp_home(&self) -> Archive;

    // Band::open (unit `band`): Ok iff BANDHEAD is present, decodes and names a supported version and flags.
    #[verifier::external_body]
    async fn open(archive: &Archive, band_id: BandId) -> (r: Result<Band>)
        ensures
            match r {
                Ok(b) => archive.sp_open_err(band_id) is None && b.band_id == band_id && b.sp_home() == *archive
                    && b.transport.sp_listing() == archive.sp_band_dir(band_id),
                Err(e) => archive.sp_open_err(band_id) == Some(tag_of(e)),
            },
    { unimplemented!() }
}

// ---- validate_index_hunk_count (src/validate.rs; added by the fix for DESIGN 9 #7): its fn block is in validate.vu and
// its contract is PROVED against the real body.  What follows are the ASSUMED contracts of what it calls. ----

// jiff::Timestamp inside band::Info: opaque, no contract of this unit speaks about times.
#[verifier::external_body]
struct Timestamp { _p: () }

//@@ type src/band.rs | struct Info
//@@ end

// A hunk file is named by a u32 (src/index/mod.rs: `hunk_relpath(hunk_number: u32)`, `read_hunk(.., hunk_number: u32)`,
// `hunks_available` parses `u32`): no hunk exists under a number outside u32.
#[verifier::external_body]
proof fn axiom_hunk_numbers_are_u32(a: Archive, id: BandId, n: int)
    ensures a.sp_hunk_ok(id, n) ==> 0 <= n <= u32::MAX,
{ }

impl Band {
    // Band::get_info (src/band.rs): read_json(BANDTAIL) -- Ok(None) when the tail is absent (unit `jsonio`:
    // C10.read_json_none_iff_file_missing), Err when it is unreadable or undecodable -- plus timestamp conversion.
    // ASSUMED: Ok carries BANDTAIL's index_hunk_count (None when there is no tail or the tail does not state one).
    #[verifier::external_body]
    async fn get_info(&self) -> (r: Result<Info>)
        ensures
            match r {
                Ok(i) => self.sp_home().sp_info_err(self.band_id) is None
                    && i.index_hunk_count == self.sp_home().sp_tail_count(self.band_id),
                Err(e) => self.sp_home().sp_info_err(self.band_id) == Some(tag_of(e)),
            },
    { unimplemented!() }

    // Band::index (src/band.rs): `IndexRead::open(self.transport.chdir(INDEX_DIR))` -- a reader of THIS band's index
    #[verifier::external_body]
    fn index(&self) -> (r: IndexRead)
        ensures r.home() == self.sp_home(), r.sid() == self.band_id,
    { unimplemented!() }
}

// R3: IndexRead (src/index/mod.rs), opaque: which band's index directory it reads.
#[verifier::external_body]
struct IndexRead { _p: () }

impl IndexRead {
    uninterp spec fn home(&self) -> Archive;
    uninterp spec fn sid(&self) -> BandId;

    // IndexRead::read_hunk: Ok(Some(entries)) iff hunk file `hunk_number` exists, decompresses and decodes;
    // Ok(None) iff there is no such file; Err otherwise.  (Same contract as in unit `hunkiter`, hunkiter_types.rs,
    // over this unit's outcome function sp_hunk_ok.)
    #[verifier::external_body]
    async fn read_hunk(&mut self, hunk_number: u32) -> (r: Result<Option<Vec<IndexEntry>>>)
        ensures
            final(self).home() == old(self).home(),
            final(self).sid() == old(self).sid(),
            (r matches Ok(Some(_))) <==> old(self).home().sp_hunk_ok(old(self).sid(), hunk_number as int),
    { unimplemented!() }
}

// R7 (lifted verbatim from Band::validate):  entries.iter().any(|entry| entry.name == BAND_HEAD_FILENAME)
#[verifier::external_body]
fn r7_any_name_eq(entries: &Vec<DirEntry>, name: &str) -> (r: bool)
    ensures r == has_name(entries@, name@),
{ entries.iter().any(|entry| entry.name == name) }

// std: `String != &str` is inequality of the texts
#[verifier::external_body]
fn shim_string_ne(a: &String, b: &str) -> (r: bool)
    ensures r == (a@ != b@),
{ a != b }

// R6: `for x in S.iter()` over a slice: the elements in order, by reference
#[verifier::external_body]
#[verifier::reject_recursive_types(T)]
struct SliceIter<'a, T> { inner: std::slice::Iter<'a, T> }

impl<'a, T> SliceIter<'a, T> {
    uninterp spec fn rem(&self) -> Seq<T>;

    #[verifier::external_body]
    fn next(&mut self) -> (r: Option<&'a T>)
        ensures
            old(self).rem().len() == 0 ==> r is None && final(self).rem() == old(self).rem(),
            old(self).rem().len() > 0 ==> r == Some(&old(self).rem()[0])
                && final(self).rem() == old(self).rem().skip(1),
    { self.inner.next() }
}

#[verifier::external_body]
fn shim_slice_iter<'a, T>(s: &'a [T]) -> (r: SliceIter<'a, T>)
    ensures r.rem() == s@,
{ SliceIter { inner: s.iter() } }

// ---- the functions of Archive that validate calls (other units: `select`, `blockdir`) ----
impl Archive {
    // open_stored_tree(Specified(id)) = resolve (identity) + StoredTree::open = Band::open again
    #[verifier::external_body]
    async fn open_stored_tree(&self, band_selection: BandSelectionPolicy) -> (r: Result<StoredTree>)
        ensures
            band_selection matches BandSelectionPolicy::Specified(id) ==> match r {
                Ok(st) => self.sp_open_tree_err(id) is None && st.sid() == id && st.home() == *self,
                Err(e) => self.sp_open_tree_err(id) == Some(tag_of(e)),
            },
    { unimplemented!() }

    // validate_archive_dir: lists the archive root; reports a duplicated band directory; warns about stray files.
    // ASSUMED (not extracted: str::parse / eq_ignore_ascii_case / HashSet<BandId>); its one monitor.error call site
    // (duplicate band directory) is covered by the precondition below.
    #[verifier::external_body]
    async fn validate_archive_dir(&self, monitor: MonitorArc) -> (r: Result<()>)
        requires
            healthy_ctx() ==> self.sp_dir_err() is None, //# C09.silent_when_healthy
        ensures
            match r {
                Ok(_) => self.sp_dir_err() is None || reported(self.sp_dir_err().unwrap()),
                Err(e) => self.sp_dir_err() == Some(tag_of(e)),
            },
    { unimplemented!() }

    // list_band_ids (unit `select`)
    #[verifier::external_body]
    async fn list_band_ids(&self) -> (r: Result<Vec<BandId>>)
        ensures
            match r {
                Ok(v) => self.sp_band_ids() == Ok::<Seq<BandId>, ErrTag>(v@),
                Err(e) => self.sp_band_ids() == Err::<Seq<BandId>, ErrTag>(tag_of(e)),
            },
    { unimplemented!() }

    // block_dir: BlockDir::open lists d/ and remembers the non-empty block files
    #[verifier::external_body]
    async fn block_dir(&self) -> (r: Result<Arc<BlockDir>>)
        ensures
            match r {
                Ok(bd) => self.sp_blockdir_err() is None && bd.home() == *self,
                Err(e) => self.sp_blockdir_err() == Some(tag_of(e)),
            },
    { unimplemented!() }
}

#[verifier::external_body]
struct BlockDir { _p: () }

impl BlockDir {
    uninterp spec fn home(&self) -> Archive;

    // BlockDir::validate spawns one task per present block on a tokio JoinSet -- out of reach for this unit.
    // ASSUMED here (the per-block check is `get_async_uncached`, partly proved in unit `blockdir`): a hash is a key
    // of the returned map only if the block is present, decompressed and re-hashed to its name, and the value is its
    // uncompressed length; every present block that fails gets monitor.error.
    #[verifier::external_body]
    async fn validate(&self, monitor: MonitorArc) -> (r: Result<HashMap<BlockHash, usize>>)
        requires
            healthy_ctx() ==> self.home().sp_good_len() is Ok && forall|h: Seq<u8>| self.home().sp_present().contains(h)
                ==> #[trigger] (self.home().sp_good_len()->Ok_0).contains_key(h), //# C09.silent_when_healthy
        ensures
            match r {
                Ok(m) => self.home().sp_good_len() == Ok::<Map<Seq<u8>, usize>, ErrTag>(m@)
                    && (forall|h: Seq<u8>| #[trigger] m@.contains_key(h) ==> self.home().sp_present().contains(h))
                    && (forall|h: Seq<u8>| self.home().sp_present().contains(h) && !m@.contains_key(h)
                            ==> reported(#[trigger] self.home().sp_block_err(h))),
                Err(e) => self.home().sp_good_len() == Err::<Map<Seq<u8>, usize>, ErrTag>(tag_of(e)),
            },
    { unimplemented!() }
}

// R7 (lifted verbatim from Archive::validate step 3a):  block_dir.blocks().iter().cloned().collect()
// `blocks()` is the read guard of the set of present blocks; the chain copies it into a HashSet.
#[verifier::external_body]
fn r7_blocks_cloned_collect(block_dir: &BlockDir) -> (r: HashSet<BlockHash>)
    ensures r@ == block_dir.home().sp_present(),
{ unimplemented!() }

// std::collections::HashSet keyed by BlockHash (R3, same-named shim; see HashMap above)
#[verifier::external_body]
#[verifier::reject_recursive_types(K)]
struct HashSet<K> { inner: std::collections::HashSet<K> }

impl HashSet<BlockHash> {
    uninterp spec fn view(&self) -> Set<Seq<u8>>;

    // HashSet::contains: "Returns true if the set contains a value."
    #[verifier::external_body]
    fn contains(&self, k: &BlockHash) -> (r: bool)
        ensures r == self@.contains(k@),
    { unimplemented!() }
}

// ---- what Archive::validate must have reported about one referenced block ----
// quick (3a): a referenced block that is not present
spec fn quick_check_reported(a: Archive, h: Seq<u8>) -> bool {
    !a.sp_present().contains(h) ==> reported(ErrTag::BlockMissing(h))
}

// full (3b): a referenced block that did not verify, or that verified but is shorter than the referenced range
spec fn full_check_reported(a: Archive, h: Seq<u8>) -> bool {
    let good = a.sp_good_len()->Ok_0;
    if !good.contains_key(h) { reported(ErrTag::BlockMissing(h)) }
    else { a.referenced()[h] > good[h] as u64 ==> reported(ErrTag::BlockTooShort(h, good[h], a.referenced()[h] as usize)) }
}

// ---- THE FIXES this unit proposed (since applied to /repo as `fix:` commits 92d9d5b and 03db8fb; kept for the record).
// With them `./check --unit validate` verifies and the two witnesses of witness/src/w_validate.rs no longer reproduce. ----
//   | --- a/src/validate.rs
//   | +++ b/src/validate.rs
//   | @@ -52,6 +52,9 @@
//   |              monitor.error(err);
//   |              continue 'band;
//   |          };
//   | +        if let Err(err) = validate_index_hunk_count(&band).await {
//   | +            monitor.error(err);
//   | +        }
//   |          let st = match archive
//   |              .open_stored_tree(BandSelectionPolicy::Specified(*band_id))
//   |              .await
//   | @@ -74,6 +77,29 @@
//   |      Ok(block_lens)
//   |  }
//   |  
//   | +/// Check that every index hunk promised by the band's tail is present and readable.
//   | +///
//   | +/// `IndexHunkIter` skips hunks that are missing or can't be decoded, so without this check a
//   | +/// damaged index would validate cleanly while restore silently omits the files in that hunk.
//   | +async fn validate_index_hunk_count(band: &Band) -> Result<()> {
//   | +    if let Some(count) = band.get_info().await?.index_hunk_count {
//   | +        let mut index = band.index();
//   | +        for hunk_number in 0..count {
//   | +            let readable = match u32::try_from(hunk_number) {
//   | +                Ok(n) => matches!(index.read_hunk(n).await, Ok(Some(_))),
//   | +                Err(_) => false,
//   | +            };
//   | +            if !readable {
//   | +                let band_id = band.id();
//   | +                return Err(Error::InvalidMetadata {
//   | +                    details: format!("{band_id}: index hunk {hunk_number} of {count} is unreadable"),
//   | +                });
//   | +            }
//   | +        }
//   | +    }
//   | +    Ok(())
//   | +}
//   | +
//   |  fn merge_block_lens(into: &mut HashMap<BlockHash, u64>, from: &HashMap<BlockHash, u64>) {
//   |      for (bh, bl) in from {
//   |          into.entry(bh.clone())
//   | @@ -97,7 +123,14 @@
//   |              // TODO: Read index hunks, count into the task per hunk. Then, we can
//   |              // read hunks in parallel.
//   |              for addr in entry.addrs {
//   | -                let end = addr.start + addr.len;
//   | +                let end = match addr.start.checked_add(addr.len) {
//   | +                    Some(end) => end,
//   | +                    None => {
//   | +                        return Err(Error::InvalidMetadata {
//   | +                            details: format!("Block address range overflows: {addr:?}"),
//   | +                        });
//   | +                    }
//   | +                };
//   |                  block_lens
//   |                      .entry(addr.hash.clone())
//   |                      .and_modify(|l| *l = max(*l, end))
//
// The helper's contract is no longer assumed: see the fn block `validate_index_hunk_count` in units/validate.vu.
