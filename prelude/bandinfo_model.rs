// ---- bandinfo_model: top-level vocabulary of unit `bandinfo` ----
// The unit is laid out like the crate: the ROOT of the generated file holds what `crate::jsonio` and `crate::transport`
// provide (prelude/jsonio_shims.rs: `Error`/`Result` there are jsonio's), and the functions of src/band.rs,
// src/archive.rs, src/stored_tree.rs live in a child module `krate` (prelude/bandinfo_crate.rs) in which `Error` and
// `Result` are crate::Error / crate::Result, as in the sources.  No body needs a type rename for this.
//
// Transport: jsonio_shims.rs gives it `read`/`write` (+ `read_outcome`, `file_written`).  Added here, with the SAME
// contract text as prelude/band_shims.rs (textcopy links in units/links_bandinfo.json): `dir()`, `chdir`, `is_file`.

//@@ include apath_type.rs
//@@ include indexwriter_decimal.rs
//@@ include jsonio_shims.rs

//@@ type src/bandid.rs | struct BandId derive=Clone,Copy
//@@ end

// select_types.rs: "newer" means "greater number"
impl BandId {
    spec fn n(&self) -> u32 { self.0 }
}

// ---------- text copies of prelude/band_shims.rs (band directory names and paths) ----------
// format.md: "Bands are represented as a subdirectory within the archive directory, as `b` followed by the number",
// "zero-padded to four digits ... bands numbered over 9999 are supported".
spec fn band_dir_name(n: u32) -> Seq<u8> { seq![0x62u8] + dec_pad(n as nat, 4) }

// Transport::chdir (src/transport.rs): "" stays, otherwise components are joined with '/'.
spec fn path_join(d: Seq<u8>, p: Seq<u8>) -> Seq<u8> {
    if p.len() == 0 { d } else if d.len() == 0 { p } else { d + seq![SLASH] + p }
}

// BRIDGE to band_shims.rs, where `file_probe(dir, name)` is uninterpreted ("what probing `is name a file in directory
// dir` yields during this operation: Ok(present) or Err = storage fault").  Here it is DEFINED over the one thing a
// probe can depend on, the full path of the probed file, so that probing "<band>/BANDTAIL" from the archive root
// (Archive::band_is_closed) and probing "BANDTAIL" from the band directory (Band::is_closed, unit band) are the same
// question.  `path_probe` itself stays uninterpreted.
uninterp spec fn path_probe(full: Seq<u8>) -> std::result::Result<bool, ()>;

spec fn file_probe(dir: Seq<u8>, name: Seq<char>) -> std::result::Result<bool, ()> {
    path_probe(path_join(dir, bytes_of(name)))
}

// joining "<a>/<b>" onto d is joining a, then b (both non-empty)
proof fn lemma_path_join_assoc(d: Seq<u8>, a: Seq<u8>, b: Seq<u8>)
    requires a.len() > 0, b.len() > 0,
    ensures path_join(d, a + seq![SLASH] + b) == path_join(path_join(d, a), b),
{
    if d.len() == 0 {
        assert(path_join(d, a) == a);
    } else {
        assert(d + seq![SLASH] + (a + seq![SLASH] + b) =~= (d + seq![SLASH] + a) + seq![SLASH] + b);
    }
}

// (units/band.vu bridge_select_lemma_path_join_inj, same proof) joining the same non-empty name onto two directories
// gives the same path only for the same directory
proof fn lemma_path_join_inj(d1: Seq<u8>, d2: Seq<u8>, p: Seq<u8>)
    requires p.len() > 0, path_join(d1, p) == path_join(d2, p),
    ensures d1 == d2,
{
    if d1.len() == 0 && d2.len() == 0 {
        assert(d1 =~= d2);
    } else if d1.len() == 0 {
        assert((d2 + seq![SLASH] + p).len() == d2.len() + 1 + p.len());
    } else if d2.len() == 0 {
        assert((d1 + seq![SLASH] + p).len() == d1.len() + 1 + p.len());
    } else {
        let a = d1 + seq![SLASH] + p;
        let b = d2 + seq![SLASH] + p;
        assert(a.len() == d1.len() + 1 + p.len());
        assert(b.len() == d2.len() + 1 + p.len());
        assert forall|i: int| 0 <= i < d1.len() implies d1[i] == d2[i] by {
            assert(a[i] == d1[i]);
            assert(b[i] == d2[i]);
        }
        assert(d1 =~= d2);
    }
}

// a band directory name holds no '/': 'b' followed by decimal digits
proof fn lemma_band_dir_name_no_slash(n: u32)
    ensures
        band_dir_name(n).len() >= 2,
        forall|k: int| 0 <= k < band_dir_name(n).len() ==> band_dir_name(n)[k] != SLASH,
{
    lemma_dec_pad(n as nat, 4);
    lemma_dec_digits(n as nat);
    let d = dec_pad(n as nat, 4);
    assert(d.len() >= 1);
    assert forall|k: int| 0 <= k < band_dir_name(n).len() implies band_dir_name(n)[k] != SLASH by {
        if k > 0 { assert(band_dir_name(n)[k] == d[k - 1]); assert(is_digit(d[k - 1])); }
    }
}

// <root>/<band dir name> determines both the root and the band number
proof fn lemma_band_dir_identifies(r1: Seq<u8>, i1: u32, r2: Seq<u8>, i2: u32)
    requires path_join(r1, band_dir_name(i1)) == path_join(r2, band_dir_name(i2)),
    ensures r1 == r2, i1 == i2,
{
    let n1 = band_dir_name(i1);
    let n2 = band_dir_name(i2);
    lemma_band_dir_name_no_slash(i1);
    lemma_band_dir_name_no_slash(i2);
    if r1.len() == 0 && r2.len() == 0 {
        assert(r1 =~= r2);
    } else if r1.len() == 0 {
        let f = r2 + seq![SLASH] + n2;
        assert(f[r2.len() as int] == SLASH);
        assert(false);
    } else if r2.len() == 0 {
        let f = r1 + seq![SLASH] + n1;
        assert(f[r1.len() as int] == SLASH);
        assert(false);
    } else {
        let f1 = r1 + seq![SLASH] + n1;
        let f2 = r2 + seq![SLASH] + n2;
        assert(f1.len() == r1.len() + 1 + n1.len());
        assert(f2.len() == r2.len() + 1 + n2.len());
        if r1.len() < r2.len() {
            assert(f2[r2.len() as int] == SLASH);
            assert(f1[r2.len() as int] == n1[r2.len() - r1.len() - 1]);
            assert(false);
        }
        if r2.len() < r1.len() {
            assert(f1[r1.len() as int] == SLASH);
            assert(f2[r1.len() as int] == n2[r1.len() - r2.len() - 1]);
            assert(false);
        }
        assert forall|k: int| 0 <= k < r1.len() implies r1[k] == r2[k] by {
            assert(f1[k] == r1[k]);
            assert(f2[k] == r2[k]);
        }
        assert(r1 =~= r2);
    }
    // now n1 == n2
    assert(n1 =~= n2) by {
        if r1.len() == 0 { } else {
            let f1 = r1 + seq![SLASH] + n1;
            let f2 = r2 + seq![SLASH] + n2;
            assert(n1.len() == n2.len());
            assert forall|k: int| 0 <= k < n1.len() implies n1[k] == n2[k] by {
                assert(f1[r1.len() + 1 + k] == n1[k]);
                assert(f2[r2.len() + 1 + k] == n2[k]);
            }
        }
    }
    lemma_dec_pad(i1 as nat, 4);
    lemma_dec_pad(i2 as nat, 4);
    assert(n1.skip(1) =~= dec_pad(i1 as nat, 4));
    assert(n2.skip(1) =~= dec_pad(i2 as nat, 4));
}

proof fn lemma_index_dir_name()
    ensures "i".spec_bytes().len() == 1,
{
    reveal_strlit("i");
    vstd::utf8::is_ascii_chars_encode_utf8("i"@);
}

impl Transport {
    // `dir()` is the directory the transport points at, relative to the archive root.  (band_shims.rs)
    uninterp spec fn dir(&self) -> Seq<u8>;

    // (band_shims.rs, same text)
    #[verifier::external_body]
    fn chdir(&self, relpath: &str) -> (r: Transport)
        ensures r.dir() == path_join(self.dir(), relpath.spec_bytes()),
    { unimplemented!() }

    // Transport::is_file (src/transport.rs): Ok(true) iff `path` names a regular file, Ok(false) if it is absent or
    // something else, Err on a storage fault.  (band_shims.rs, same text)
    #[verifier::external_body]
    async fn is_file(&self, path: &str) -> (r: std::result::Result<bool, TransportError>)
        ensures
            r matches Ok(b) ==> file_probe(self.dir(), path@) == Ok::<bool, ()>(b),
            r is Err ==> file_probe(self.dir(), path@) is Err,
    { unimplemented!() }
}

// Transport::metadata (src/transport.rs): stat of a path.  Not used by the functions of this unit on the pinned tree;
// present (with `Kind` cut from the source and `Metadata` minus its `modified` field) so that an edit which decides
// "closed"/"exists" from a stat -- e.g. by the file's LENGTH -- is judged by the probe clauses instead of leaving the
// unit unposable.  Link to `is_file` (which the real transport implements as `metadata(..).kind == File`, not-found
// => false): the kind answers the same probe; nothing is known about `len`.
//@@ type src/kind.rs | enum Kind derive=Clone,Copy,PartialEq,Eq,Structural
//@@ end

struct Metadata {
    len: u64,
    kind: Kind,
}

impl Transport {
    #[verifier::external_body]
    async fn metadata(&self, relpath: &str) -> (r: std::result::Result<Metadata, TransportError>)
        ensures
            r matches Ok(m) ==> file_probe(self.dir(), relpath@) == Ok::<bool, ()>(m.kind == Kind::File),
            r matches Err(e) ==> (e.not_found() ==> file_probe(self.dir(), relpath@) == Ok::<bool, ()>(false)),
            r matches Err(e) ==> (!e.not_found() ==> file_probe(self.dir(), relpath@) is Err),
    { unimplemented!() }
}

// ASSUMED (the same item as band.vu's bridge_select_transport_identified_by_dir / jsonio.vu's
// bridge_band_dir_identifies_transport): a Transport value is identified by the directory it points at.
#[verifier::external_body]
proof fn bridge_transport_identified_by_dir(t1: Transport, t2: Transport)
    ensures t1.dir() == t2.dir() ==> t1 == t2,
{ }

// `#[derive(Clone)]` on Transport (an Arc of the protocol): a second handle on the same directory.
impl Clone for Transport {
    #[verifier::external_body]
    fn clone(&self) -> (r: Self)
        ensures r == *self,
    { unimplemented!() }
}

// ---------- file names (cut from the sources like declarations, so an edit is seen) ----------
//@@ type src/lib.rs | static BAND_HEAD_FILENAME
//@ rewrite
static BAND_HEAD_FILENAME: &str ==> const BAND_HEAD_FILENAME: &'static str
//@@ end

//@@ type src/lib.rs | static BAND_TAIL_FILENAME
//@ rewrite
static BAND_TAIL_FILENAME: &str ==> const BAND_TAIL_FILENAME: &'static str
//@@ end

//@@ type src/band.rs | static INDEX_DIR
//@ rewrite
static INDEX_DIR: &str ==> const INDEX_DIR: &'static str
//@@ end

// the two names as bytes (both non-empty: needed to split "<band>/<name>" into directory and file)
proof fn lemma_band_file_names()
    ensures
        bytes_of("BANDHEAD"@).len() == 8,
        bytes_of("BANDTAIL"@).len() == 8,
{
    reveal_strlit("BANDHEAD");
    reveal_strlit("BANDTAIL");
    vstd::utf8::is_ascii_chars_encode_utf8("BANDHEAD"@);
    vstd::utf8::is_ascii_chars_encode_utf8("BANDTAIL"@);
}

// R5: `format!("{}<sep>{}", band_id, name)` with `band_id: BandId`, `name: &str`: the Display text of the id (PROVED in
// unit band to be band_dir_name: C13.band_directory_name), the separator character read from the source text, the name.
#[verifier::external_body]
fn shim_fmt_id_sep_name(band_id: BandId, sep: char, name: &str) -> (r: String)
    requires (sep as u32) < 0x80,
    ensures bytes_of(r@) == band_dir_name(band_id.0) + seq![sep as u8] + bytes_of(name@),
{ unimplemented!() /* format!("{}{sep}{}", band_id, name) */ }

// Cow<'static, str> (a format flag): an immutable string.  R3 type rename `Cow<'static, str>` -> `CowStr`. (band_shims.rs)
#[verifier::external_body]
struct CowStr { inner: std::borrow::Cow<'static, str> }

impl CowStr {
    pub uninterp spec fn view(&self) -> Seq<char>;
}

// ---------- jiff::Timestamp (R3) ----------
// jiff 0.2 `Timestamp::from_second`: "Creates a new instant in time from the number of seconds elapsed since the Unix
// epoch. ... Errors: This returns an error if the given second corresponds to a timestamp outside of the
// Timestamp::MIN and Timestamp::MAX boundaries" (-377705023201 ..= 253402207200); it never panics.
#[verifier::external_body]
struct Timestamp { _p: () }

#[verifier::external_body]
struct JiffError { _p: () }

// (`Result::unwrap`/`expect` need `E: Debug`; only reachable after an edit of the source)
#[verifier::external]
impl std::fmt::Debug for JiffError {
    fn fmt(&self, f: &mut std::fmt::Formatter<'_>) -> std::fmt::Result { f.write_str("jiff error") }
}

spec fn ts_second_ok(s: i64) -> bool { -377705023201 <= s <= 253402207200 }

impl Timestamp {
    uninterp spec fn second(&self) -> i64;

    #[verifier::external_body]
    fn from_second(second: i64) -> (r: std::result::Result<Timestamp, JiffError>)
        ensures
            r is Ok <==> ts_second_ok(second),
            r matches Ok(t) ==> t.second() == second,
    { unimplemented!() }
}

// ---------- std ----------
// Option<Result<T, E>>::transpose: "None will be mapped to Ok(None). Some(Ok(_)) and Some(Err(_)) will be mapped to
// Ok(Some(_)) and Err(_)."
pub assume_specification<T, E>[Option::<std::result::Result<T, E>>::transpose](o: Option<std::result::Result<T, E>>) -> (r: std::result::Result<Option<T>, E>)
    ensures r == (match o { None => Ok(None), Some(Ok(x)) => Ok(Some(x)), Some(Err(e)) => Err(e) });

// Option<Option<T>>::flatten (not used by the pinned tree; needed so that an edit that swallows a read error with
// `.ok().flatten()` is judged by the contract rather than rejected).
pub assume_specification<T>[Option::<Option<T>>::flatten](o: Option<Option<T>>) -> (r: Option<T>)
    ensures r == (match o { Some(x) => x, None => None });

// Result::unwrap_or (not used by the pinned tree in these functions; needed so that an edit that turns a probe error into
// `false` is judged by the contract rather than rejected).  Same text as in band_shims.rs / stitch_types.rs.
pub assume_specification<T, E>[std::result::Result::<T, E>::unwrap_or](res: std::result::Result<T, E>, default: T) -> (o: T)
    ensures o == (match res { Ok(t) => t, Err(_) => default });

// R5: the text of an error payload (`format!(..)` inside `Error::InvalidMetadata { details: .. }`): no contract speaks about it.
#[verifier::external_body]
fn shim_opaque_text() -> (r: String)
{ unimplemented!() }

// ---------- R3 shims of the other arguments of StoredTree::iter_entries / Band::index_writer (opaque here) ----------
// Exclude (src/excludes.rs, unit `exclude`)
#[verifier::external_body]
struct Exclude { _p: () }

impl Exclude {
    // Exclude::nothing() (src/excludes.rs); no contract: this unit only hands an Exclude on
    #[verifier::external_body]
    fn nothing() -> (r: Exclude)
    { unimplemented!() }
}

// Arc<dyn Monitor>: only handed on
#[verifier::external_body]
struct MonitorArc { _p: () }

// Decompressor (src/compress/snappy.rs) and IndexReadStats (src/index/mod.rs, `#[derive(Default)]` counters): opaque
#[verifier::external_body]
struct Decompressor { _p: () }

impl Decompressor {
    #[verifier::external_body]
    fn new() -> (r: Decompressor)
    { unimplemented!() }
}

#[verifier::external_body]
struct IndexReadStats { _p: () }

impl IndexReadStats {
    #[verifier::external_body]
    fn default() -> (r: IndexReadStats)
    { unimplemented!() }
}

// select_types.rs (text copy): the band ids named by the directories of the archive root
impl Transport {
    uninterp spec fn root_band_ids(&self) -> Set<BandId>;
}

// select_types.rs (text copy)
spec fn is_max_of(m: BandId, s: Set<BandId>) -> bool {
    s.contains(m) && forall|x: BandId| s.contains(x) ==> x.n() <= m.n()
}

// ---------- text copies of prelude/band_shims.rs: the vocabulary of the header PROVED for Band::open ----------
// BANDHEAD exists in the band directory `dir` (monotone knowledge, DESIGN 4.3)
uninterp spec fn head_written(dir: Seq<u8>) -> bool;

// member of `band::flags::SUPPORTED` (currently the empty list; the contracts do not depend on its content)
uninterp spec fn flag_supported(f: Seq<char>) -> bool;

spec fn all_flags_supported(fs: Seq<CowStr>) -> bool {
    forall|i: int| 0 <= i < fs.len() ==> flag_supported(#[trigger] fs[i]@)
}

uninterp spec fn semver_parses(s: Seq<char>) -> bool;

// requirement text `req` admits version text `v`
uninterp spec fn semver_matches(req: Seq<char>, v: Seq<char>) -> bool;

// "<=" followed by crate::VERSION
uninterp spec fn le_crate_version() -> Seq<char>;
