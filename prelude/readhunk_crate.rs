// ---- readhunk_crate: the crate-side declarations of unit `readhunk` (expanded INSIDE `mod krate { use super::*; .. }`) ----
// Everything marked ASSUMED is part of the trusted base of this unit.  What is NOT assumed (and is proved in the unit):
// which path read_hunk reads, which transport outcome it maps to Ok(None) / Err, that it hands the bytes it read to the
// decompressor and the decompressor's output to the JSON decoder, and that no failure of either is swallowed.

// crate::Error (src/errors.rs), reduced (R3/R5) to the variants read_hunk constructs; `Other` = every other variant
// (in particular what Decompressor::decompress returns: the `#[from] snap::Error` variant).  Declared here it shadows
// transport::Error (glob-imported from the root), which stays reachable as `TransportError`.
#[allow(inconsistent_fields)]
enum Error {
    Transport { source: TransportError },
    DeserializeJson { path: String, source: JsonError },
    Other,
}

type Result<T> = std::result::Result<T, Error>;

// serde_json::Error: opaque
#[verifier::external_body]
struct JsonError { _p: () }

// ---------- bytes 1.x `Bytes`: an immutable byte sequence (R3; same shim as prelude/blockdir_shims.rs) ----------
// (`pub`: trait impls below are public items and may only mention public spec functions)
#[verifier::external_body]
pub struct Bytes { inner: Vec<u8> }

impl Bytes {
    pub uninterp spec fn view(&self) -> Seq<u8>;

    // bytes: `Bytes::len` (through Deref<Target=[u8]>)
    #[verifier::external_body]
    fn len(&self) -> (r: usize)
        ensures r as int == self@.len(),
    { self.inner.len() }

    // bytes: `Bytes::is_empty` (through Deref<Target=[u8]>)
    #[verifier::external_body]
    fn is_empty(&self) -> (r: bool)
        ensures r == (self@.len() == 0),
    { self.inner.is_empty() }
}

// bytes: `impl Deref<Target=[u8]> for Bytes`
impl core::ops::Deref for Bytes {
    type Target = [u8];
    #[verifier::external_body]
    fn deref(&self) -> (r: &[u8])
        ensures r@ == self@,
    { &self.inner[..] }
}

// bytes: `impl Default for Bytes` = the empty byte string (only reachable after an edit: `unwrap_or_default()`)
impl Default for Bytes {
    #[verifier::external_body]
    fn default() -> (r: Self)
        ensures r@ == Seq::<u8>::empty(),
    { Bytes { inner: Vec::new() } }
}

// ---------- the storage model: what is stored under a path of the index directory, as this operation sees it ----------
//   Missing    there is no such file (the read fails with a transport error of kind NotFound)
//   Bytes(b)   the file is there and `b` is its whole content
//   Fault      the file cannot be read: any other transport error (permission, I/O, network ..)
// `file_at` is TIMELESS: one task, nobody else writes during the operation (DESIGN C08 "the archive is unchanged during
// the listing"; C06 is out of reach).  Same idiom as `read_outcome` in prelude/jsonio_shims.rs.
enum ReadOutcome {
    Missing,
    Bytes(Seq<u8>),
    Fault,
}

// R3 shim of transport::Transport as read_hunk uses it.
#[verifier::external_body]
struct Transport { _p: () }

impl Transport {
    uninterp spec fn file_at(&self, path: Seq<u8>) -> ReadOutcome;

    // DESIGN 4.3 monotone knowledge, positive only: a `read` of this path on this transport has returned.
    uninterp spec fn was_read(&self, path: Seq<u8>) -> bool;

    // transport::Transport::read (src/transport.rs): "Read the content of a file".  ASSUMED: Ok(bytes) = the whole
    // file; an error of kind NotFound exactly when there is no such file (for the local back end that is unit leaves,
    // Error::io_error: C10+C09.only_os_not_found_becomes_not_found); every other error is a storage fault.  What it
    // hands back is KNOWLEDGE about the path that was actually passed, nothing else.
    #[verifier::external_body]
    async fn read(&self, path: &str) -> (r: std::result::Result<Bytes, TransportError>)
        ensures
            self.was_read(bytes_of(path@)),
            r matches Ok(b) ==> self.file_at(bytes_of(path@)) == ReadOutcome::Bytes(b@),
            r matches Err(e) ==> self.file_at(bytes_of(path@))
                == (if e.kind == ErrorKind::NotFound { ReadOutcome::Missing } else { ReadOutcome::Fault }),
    { unimplemented!() }
}

// ---------- compress::snappy::Decompressor (src/compress/snappy.rs: 4 lines of glue over snap::raw::Decoder) ----------
// snap_decode(b) = what raw Snappy decompression makes of b: Some(data), or None = the decoder rejects b.  Uninterpreted:
// nothing relates it to any content.  ASSUMED honest both ways (Ok(x) <=> Some(x)), and ASSUMED (C10) that the decoder
// returns Err rather than panicking on arbitrary bytes (same assumption as prelude/blockdir_shims.rs).
uninterp spec fn snap_decode(b: Seq<u8>) -> Option<Seq<u8>>;

#[verifier::external_body]
struct Decompressor { _p: () }

impl Decompressor {
    #[verifier::external_body]
    fn decompress(&mut self, input: &[u8]) -> (r: Result<Bytes>)
        ensures
            r matches Ok(out) ==> snap_decode(input@) == Some(out@),
            r is Err ==> snap_decode(input@) is None,
    { unimplemented!() }
}

// ---------- serde_json::from_slice::<Vec<IndexEntry>> (R4 call-site redirection) ----------
// json_entries(j) = what serde_json + derive(Deserialize) on IndexEntry (and the validating Deserialize of Apath) make of
// the byte string j: Some(list), or None = rejected.  Uninterpreted.  ASSUMED honest both ways, and ASSUMED (C10, DESIGN 7)
// that serde_json returns Err rather than panicking on arbitrary bytes.
uninterp spec fn json_entries(j: Seq<u8>) -> Option<Seq<IndexEntry>>;

#[verifier::external_body]
fn shim_json_entries_from_slice(v: &[u8]) -> (r: std::result::Result<Vec<IndexEntry>, JsonError>)
    ensures
        r matches Ok(es) ==> json_entries(v@) == Some(es@),
        r is Err ==> json_entries(v@) is None,
{ unimplemented!() /* serde_json::from_slice(v) */ }

// src/stats.rs IndexReadStats: only stored here (its `+=` statements are dropped, R1: no contract mentions a counter)
//@@ type src/stats.rs | struct IndexReadStats
//@@ end

//@@ type src/index/mod.rs | struct IndexRead
//@@ end

// ---------- the contract vocabulary of read_hunk ----------
// written from doc/format.md ("Index hunks": "stored in a subdirectory for the sequence number divided by 10000 ..",
// "serialized as json and then Snappy compressed") and the statements of C08/C09/C10, not from the code

// what is stored under the documented name of hunk n in the index directory t points at
spec fn hunk_file(t: Transport, n: u32) -> ReadOutcome { t.file_at(hunk_path_spec(n as nat)) }

// these bytes are a hunk file: they decompress, and the result decodes to a list of entries
spec fn decoded(b: Seq<u8>) -> Option<Seq<IndexEntry>> {
    match snap_decode(b) {
        Some(j) => json_entries(j),
        None => None,
    }
}

// hunk n of the index at t:  None = there is no such hunk;  Some(Ok(es)) = it is there and holds es;
// Some(Err(())) = it is there but DAMAGED (unreadable or undecodable)
spec fn hunk_at(t: Transport, n: u32) -> Option<std::result::Result<Seq<IndexEntry>, ()>> {
    match hunk_file(t, n) {
        ReadOutcome::Missing => None,
        ReadOutcome::Fault => Some(Err(())),
        ReadOutcome::Bytes(b) => match decoded(b) {
            Some(es) => Some(Ok(es)),
            None => Some(Err(())),
        },
    }
}

// std: `Result::unwrap_or_default` ("Returns the contained Ok value or a default"): not called by the unchanged source --
// specified only so that an EDIT which swallows an error this way is judged by the labelled clauses (exit 1), not
// rejected as unsupported (exit 2).
pub assume_specification<T: Default, E>[ std::result::Result::<T, E>::unwrap_or_default ](res: std::result::Result<T, E>) -> (t: T)
    ensures
        res matches Ok(x) ==> t == x,
        res is Err ==> call_ensures(T::default, (), t);
