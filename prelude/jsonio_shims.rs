// ---- jsonio_shims: vocabulary and ASSUMED contracts for unit `jsonio` (src/jsonio.rs) ----
// What is assumed here: serde_json (deterministic encoder, total decoder), the two Transport primitives `write` and
// `read`, `String::as_bytes`, `PathBuf: From<&str>`.  What is NOT assumed (and is proved in the unit): which mode
// write_json passes, which bytes it hands over, that it reports a failed write, and which transport/decoder outcomes
// read_json maps to Ok(None) / Ok(Some) / Err.

// bytes of a Rust string (String@ / str@ are Seq<char>)
spec fn sbytes(s: Seq<char>) -> Seq<u8> { vstd::utf8::encode_utf8(s) }

const NEWLINE_B: u8 = 0x0a;

// ---------- serde / serde_json (R3/R4) ----------
// serde::Serialize, reduced to what serde_json::to_string makes of a value.
//   json_text()  the compact JSON text serde_json produces for the value (ASSUMED deterministic: a function of the
//                value; DESIGN 5 `serde_json`)
//   json_fails() the Serialize impl reports an error (e.g. a map with non-string keys); then nothing is produced
trait Serialize {
    spec fn json_text(&self) -> Seq<char>;
    spec fn json_fails(&self) -> bool;
}

// serde: `impl<T: Serialize> Serialize for &T` forwards (write_json passes `&obj` with `obj: &T`).
impl<T: Serialize> Serialize for &T {
    spec fn json_text(&self) -> Seq<char> { (**self).json_text() }
    spec fn json_fails(&self) -> bool { (**self).json_fails() }
}

// serde::de::DeserializeOwned, reduced to what serde_json::from_slice makes of a byte string:
// Some(v) = the bytes are a JSON document that decodes to v; None = the decoder rejects them.
trait DeserializeOwned: Sized {
    spec fn json_decode(b: Seq<u8>) -> Option<Self>;
}

// serde_json::Error: opaque
#[verifier::external_body]
struct SerdeJsonError { _p: () }

// `Result::unwrap`/`expect` need `E: Debug` (only reachable after an edit of the source)
#[verifier::external]
impl std::fmt::Debug for SerdeJsonError {
    fn fmt(&self, f: &mut std::fmt::Formatter<'_>) -> std::fmt::Result { f.write_str("serde_json error") }
}

// serde_json::to_string(value): Ok(text) unless the Serialize impl fails.
#[verifier::external_body]
fn shim_serde_json_to_string<T: Serialize>(value: &T) -> (r: std::result::Result<String, SerdeJsonError>)
    ensures
        r is Ok <==> !value.json_fails(),
        r matches Ok(s) ==> s@ == value.json_text(),
{ unimplemented!() /* serde_json::to_string(value) */ }

// serde_json::from_slice(bytes).  ASSUMED (C10, DESIGN 7): returns Err rather than panicking on arbitrary bytes.
#[verifier::external_body]
fn shim_serde_json_from_slice<T: DeserializeOwned>(v: &Bytes) -> (r: std::result::Result<T, SerdeJsonError>)
    ensures
        r is Ok <==> T::json_decode(v@) is Some,
        r matches Ok(t) ==> T::json_decode(v@) == Some(t),
{ unimplemented!() /* serde_json::from_slice(v) */ }

// ---------- std ----------
// std::path::PathBuf: only ever an error payload (R5)
#[verifier::external_body]
struct PathBuf { _p: () }

// `relpath.into()` with target PathBuf (`impl From<&str> for PathBuf`): R4 call-site redirection
#[verifier::external_body]
fn shim_pathbuf_from(s: &str) -> (r: PathBuf)
{ unimplemented!() /* s.into() */ }

// std::io::Error: opaque
#[verifier::external_body]
struct IoError { _p: () }

// `String::as_bytes` (through Deref<Target=str>): the UTF-8 bytes of the text
pub assume_specification[String::as_bytes](s: &String) -> (r: &[u8])
    ensures r@ == vstd::utf8::encode_utf8(s@);

// ---------- bytes 1.x `Bytes`: an immutable byte sequence (R3) ----------
#[verifier::external_body]
struct Bytes { _p: () }

impl Bytes {
    uninterp spec fn view(&self) -> Seq<u8>;
}

// ---------- transport (R3) ----------
//@@ type src/transport.rs | enum WriteMode derive=Clone,Copy
//@@ end

// transport::Error
#[verifier::external_body]
struct TransportError { _p: () }

impl TransportError {
    // ErrorKind::NotFound
    uninterp spec fn not_found(&self) -> bool;

    // transport::Error::is_not_found (src/transport/error.rs): `self.kind == ErrorKind::NotFound`
    #[verifier::external_body]
    fn is_not_found(&self) -> (r: bool)
        ensures r == self.not_found(),
    { unimplemented!() }
}

// what `read(path)` on this transport yields during the current operation (one task, nobody else writes: C06 is out
// of reach): Ok(bytes) = the whole file; Err(e) with e.not_found() = no such file; any other Err = storage fault.
// This is the SAME idiom as `head_read` in band_shims.rs.
#[verifier::external_body]
struct Transport { _p: () }

// permission to remove a path: never granted in this unit (see the destructive primitives below)
uninterp spec fn removal_granted(path: Seq<char>) -> bool;

impl Transport {
    uninterp spec fn read_outcome(&self, path: Seq<char>) -> std::result::Result<Seq<u8>, TransportError>;

    // DESIGN 4.3 monotone knowledge, positive only: a write of exactly `content` to `path` on this transport has
    // completed successfully.
    uninterp spec fn file_written(&self, path: Seq<char>, content: Seq<u8>) -> bool;

    // Write a whole file.  C07: every write reachable from a backup passes CreateNew (the local back end's side of
    // the bargain -- refusing an existing path -- is unit `localwrite`).
    #[verifier::external_body]
    async fn write(&self, relpath: &str, content: &[u8], mode: WriteMode) -> (r: std::result::Result<(), TransportError>)
        requires
            mode is CreateNew, //# C07.backup_writes_are_create_new
        ensures
            r is Ok ==> self.file_written(relpath@, content@),
    { unimplemented!() }

    // DESTRUCTIVE primitives (DESIGN 4.4).  Nothing in this unit's functions may remove anything: `removal_granted` is
    // never established, so a call added by an edit fails this labelled precondition (C07: backup never alters or
    // removes an existing archive file) instead of leaving the unit unposable.
    #[verifier::external_body]
    async fn remove_file(&self, relpath: &str) -> (r: std::result::Result<(), TransportError>)
        requires
            removal_granted(relpath@), //# C07.backup_never_removes_archive_files
    { unimplemented!() }

    #[verifier::external_body]
    async fn remove_dir_all(&self, relpath: &str) -> (r: std::result::Result<(), TransportError>)
        requires
            removal_granted(relpath@), //# C07.backup_never_removes_archive_files
    { unimplemented!() }

    // Read a whole file.
    #[verifier::external_body]
    async fn read(&self, path: &str) -> (r: std::result::Result<Bytes, TransportError>)
        ensures
            r matches Ok(b) ==> self.read_outcome(path@) == Ok::<Seq<u8>, TransportError>(b@),
            r matches Err(e) ==> self.read_outcome(path@) == Err::<Seq<u8>, TransportError>(e),
    { unimplemented!() }
}

// ---------- jsonio::Error (src/jsonio.rs), declared as in the source minus thiserror attributes ----------
#[allow(inconsistent_fields)]
enum Error {
    Io { source: IoError },
    Json { source: SerdeJsonError, path: PathBuf },
    Transport { source: TransportError },
}

type Result<T> = std::result::Result<T, Error>;

// thiserror `#[from] source: transport::Error`
impl From<TransportError> for Error {
    fn from(source: TransportError) -> (r: Error) { Error::Transport { source } }
}

impl vstd::std_specs::convert::FromSpecImpl<TransportError> for Error {
    closed spec fn obeys_from_spec() -> bool { true }
    closed spec fn from_spec(e: TransportError) -> Error { Error::Transport { source: e } }
}

// ---------- the contract vocabulary of read_json (written from the doc comment "Returns None if the file does not
// exist" and the C10 statement "missing or undecodable ... reported as an error rather than silently dropped") ----------
spec fn read_json_spec<T: DeserializeOwned>(t: &Transport, path: Seq<char>) -> std::result::Result<Option<T>, ()> {
    match t.read_outcome(path) {
        Ok(b) => match T::json_decode(b) { Some(v) => Ok(Some(v)), None => Err(()) },
        Err(e) => if e.not_found() { Ok(None) } else { Err(()) },
    }
}
