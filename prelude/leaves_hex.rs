// ---- leaves_hex: the text form of a block hash (doc/format.md "Data block directory": "the BLAKE2b hash of their
// uncompressed content, in lowercase hex") and the ASSUMED contracts of the two third-party crates src/blockhash.rs
// is a thin wrapper over: `hex` 0.4.3 and `blake2-rfc` 0.2.18.   requires apath_spec.rs (bytes_of), store_spec.rs (hash_of)
//
// Written from format.md and the crates' documentation, not from src/blockhash.rs.

// ---------- the lower-case hex text of a byte string (spec) ----------
spec fn hex_digit_char(n: int) -> char {
    if n == 0 { '0' } else if n == 1 { '1' } else if n == 2 { '2' } else if n == 3 { '3' }
    else if n == 4 { '4' } else if n == 5 { '5' } else if n == 6 { '6' } else if n == 7 { '7' }
    else if n == 8 { '8' } else if n == 9 { '9' } else if n == 10 { 'a' } else if n == 11 { 'b' }
    else if n == 12 { 'c' } else if n == 13 { 'd' } else if n == 14 { 'e' } else { 'f' }
}

// hex_of(b): two digits per byte, high nibble first, digits 0-9a-f
spec fn hex_of(b: Seq<u8>) -> Seq<char> {
    Seq::new(2 * b.len(), |i: int| if i % 2 == 0 { hex_digit_char(b[i / 2] as int / 16) } else { hex_digit_char(b[i / 2] as int % 16) })
}

// ---------- reading hex text (what the `hex` crate's decoder accepts: digits of EITHER case) ----------
// value of one ASCII hex digit; None = not a hex digit
spec fn hex_val(c: u8) -> Option<int> {
    if 0x30 <= c <= 0x39 { Some(c as int - 0x30) }
    else if 0x61 <= c <= 0x66 { Some(c as int - 0x61 + 10) }
    else if 0x41 <= c <= 0x46 { Some(c as int - 0x41 + 10) }
    else { None }
}

// t (the UTF-8 bytes of a string) is an even number of hex digits
spec fn is_hex_text(t: Seq<u8>) -> bool {
    t.len() % 2 == 0 && forall|i: int| 0 <= i < t.len() ==> (#[trigger] hex_val(t[i])) is Some
}

// the bytes a hex text denotes (meaningful when is_hex_text(t))
spec fn unhex(t: Seq<u8>) -> Seq<u8> {
    Seq::new(t.len() / 2, |i: int| (hex_val(t[2 * i]).unwrap() * 16 + hex_val(t[2 * i + 1]).unwrap()) as u8)
}

// t is the CANONICAL name of the bytes it denotes: only the digits 0-9a-f (what hex_of produces)
spec fn is_lower_hex_text(t: Seq<u8>) -> bool {
    t.len() % 2 == 0 && forall|i: int| 0 <= i < t.len() ==> (0x30 <= #[trigger] t[i] <= 0x39 || 0x61 <= t[i] <= 0x66)
}

proof fn lemma_hex_digit_char(n: int)
    requires 0 <= n < 16,
    ensures
        (hex_digit_char(n) as u32) < 0x80,
        hex_val(hex_digit_char(n) as u8) == Some(n),
        hex_digit_char(n) as u8 == (if n < 10 { 0x30 + n } else { 0x57 + n }),
{
}

// hex_of(b) is ASCII, so its UTF-8 bytes are its characters
proof fn lemma_hex_bytes(b: Seq<u8>)
    ensures
        hex_of(b).len() == 2 * b.len(),
        bytes_of(hex_of(b)).len() == 2 * b.len(),
        forall|i: int| 0 <= i < 2 * b.len() ==> #[trigger] bytes_of(hex_of(b))[i] == hex_of(b)[i] as u8,
{
    let h = hex_of(b);
    assert forall|i: int| 0 <= i < h.len() implies '\0' <= #[trigger] h[i] <= '\u{7f}' by {
        let v = b[i / 2] as int;
        lemma_hex_digit_char(v / 16);
        lemma_hex_digit_char(v % 16);
    }
    vstd::utf8::is_ascii_chars_encode_utf8(h);
}

// the i-th nibble of b (high nibble first)
spec fn nibble(b: Seq<u8>, i: int) -> int {
    if i % 2 == 0 { b[i / 2] as int / 16 } else { b[i / 2] as int % 16 }
}

// the i-th byte of the text of b is the lower-case digit of the i-th nibble
proof fn lemma_hex_text_at(b: Seq<u8>, i: int)
    requires 0 <= i < 2 * b.len(),
    ensures
        0 <= nibble(b, i) < 16,
        bytes_of(hex_of(b))[i] == (if nibble(b, i) < 10 { 0x30 + nibble(b, i) } else { 0x57 + nibble(b, i) }),
        hex_val(bytes_of(hex_of(b))[i]) == Some(nibble(b, i)),
{
    lemma_hex_bytes(b);
    lemma_hex_digit_char(nibble(b, i));
    assert(bytes_of(hex_of(b))[i] == hex_of(b)[i] as u8);
    assert(hex_of(b)[i] == hex_digit_char(nibble(b, i)));
}

// the text of b is accepted by the reader and is canonical (lower case)
proof fn lemma_hex_text_is_hex(b: Seq<u8>)
    ensures
        is_hex_text(bytes_of(hex_of(b))),
        is_lower_hex_text(bytes_of(hex_of(b))),
{
    let t = bytes_of(hex_of(b));
    lemma_hex_bytes(b);
    assert forall|i: int| 0 <= i < t.len() implies (#[trigger] hex_val(t[i])) is Some
        && (0x30 <= t[i] <= 0x39 || 0x61 <= t[i] <= 0x66) by {
        lemma_hex_text_at(b, i);
    }
}

// THE ROUND TRIP at spec level: the text of b reads back as b (and is accepted, and is canonical)
proof fn lemma_hex_roundtrip(b: Seq<u8>)
    ensures
        is_hex_text(bytes_of(hex_of(b))),
        is_lower_hex_text(bytes_of(hex_of(b))),
        unhex(bytes_of(hex_of(b))) == b,
{
    let t = bytes_of(hex_of(b));
    lemma_hex_bytes(b);
    lemma_hex_text_is_hex(b);
    assert forall|k: int| 0 <= k < b.len() implies #[trigger] unhex(t)[k] == b[k] by {
        lemma_hex_text_at(b, 2 * k);
        lemma_hex_text_at(b, 2 * k + 1);
        assert((2 * k) / 2 == k && (2 * k + 1) / 2 == k && (2 * k) % 2 == 0 && (2 * k + 1) % 2 == 1);
        let v = b[k] as int;
        assert(nibble(b, 2 * k) == v / 16 && nibble(b, 2 * k + 1) == v % 16);
        assert((v / 16) * 16 + v % 16 == v);
    }
    assert(unhex(t) =~= b);
}

// the CONVERSE round trip, for canonical names only: a lower-case hex text is the text of the bytes it denotes
// (an upper- or mixed-case text denotes the same bytes as its lower-case form, so it is NOT the text of what it denotes)
proof fn lemma_unhex_roundtrip(t: Seq<u8>)
    requires is_lower_hex_text(t),
    ensures
        is_hex_text(t),
        bytes_of(hex_of(unhex(t))) == t,
{
    let b = unhex(t);
    let u = bytes_of(hex_of(b));
    lemma_hex_bytes(b);
    assert(b.len() == t.len() / 2);
    assert(u.len() == t.len());
    assert forall|i: int| 0 <= i < t.len() implies #[trigger] u[i] == t[i] by {
        let k = i / 2;
        lemma_hex_text_at(b, i);
        let v0 = hex_val(t[2 * k]).unwrap();
        let v1 = hex_val(t[2 * k + 1]).unwrap();
        assert(0 <= v0 < 16 && 0 <= v1 < 16);
        assert(b[k] == (v0 * 16 + v1) as u8);
        assert((v0 * 16 + v1) / 16 == v0 && (v0 * 16 + v1) % 16 == v1);
        if i % 2 == 0 { assert(i == 2 * k); } else { assert(i == 2 * k + 1); }
    }
    assert(u =~= t);
}

// distinct byte strings have distinct texts (so: a block's file name identifies its hash)
proof fn lemma_hex_injective(a: Seq<u8>, b: Seq<u8>)
    ensures hex_of(a) == hex_of(b) ==> a == b,
{
    lemma_hex_roundtrip(a);
    lemma_hex_roundtrip(b);
}

// ---------- crate `hex` 0.4.3 (R4 call-site redirections; the generic `T: AsRef<[u8]>` is fixed to the type used) ----------
// hex::FromHexError (InvalidHexCharacter / OddLength / InvalidStringLength): src/blockhash.rs throws it away
#[verifier::external_body]
struct FromHexError { _p: () }

// hex::encode(data): "Encodes data as hex string using lowercase characters. ... The resulting string's length is
// always even, each byte in data is always encoded using two hex digits."
#[verifier::external_body]
fn shim_hex_encode(data: &[u8]) -> (r: String)
    ensures r@ == hex_of(data@),
{ unimplemented!() /* hex::encode(data) */ }

// hex::encode_upper(data): "Encodes data as hex string using uppercase characters."  (not called on the pinned tree;
// here so that an edit to the upper-case encoder is DECIDED -- the text clauses fail -- instead of not generating)
spec fn hex_upper_of(b: Seq<u8>) -> Seq<char> {
    hex_of(b).map_values(|c: char| if 'a' <= c <= 'f' { ((c as u8) - 0x20) as char } else { c })
}
#[verifier::external_body]
fn shim_hex_encode_upper(data: &[u8]) -> (r: String)
    ensures r@ == hex_upper_of(data@),
{ unimplemented!() /* hex::encode_upper(data) */ }

// hex::decode_to_slice(data, out): "Decode a hex string into a mutable bytes slice.  Both, upper and lower case
// characters are valid in the input string and can even be mixed."  Errors: OddLength (odd number of bytes),
// InvalidStringLength (data.len() / 2 != out.len()), InvalidHexCharacter.  Never panics.  On Err the slice may have been
// partly written (nothing is said about its content).
#[verifier::external_body]
fn shim_hex_decode_to_slice(data: &str, out: &mut [u8]) -> (r: std::result::Result<(), FromHexError>)
    ensures
        final(out)@.len() == old(out)@.len(),
        r is Ok <==> (data.spec_bytes().len() == 2 * old(out)@.len() && is_hex_text(data.spec_bytes())),
        r is Ok ==> final(out)@ == unhex(data.spec_bytes()),
{ unimplemented!() /* hex::decode_to_slice(data, out) */ }

// ---------- crate `blake2-rfc` 0.2.18 (R3: same-named shims) ----------
// Blake2bResult: the digest, `nn` bytes long
#[verifier::external_body]
struct Blake2bResult { _p: () }

impl Blake2bResult {
    uninterp spec fn digest(&self) -> Seq<u8>;

    // Blake2bResult::as_bytes: the digest bytes
    #[verifier::external_body]
    fn as_bytes(&self) -> (r: &[u8])
        ensures r@ == self.digest(),
    { unimplemented!() }
}

// blake2b(nn, k, data): "Convenience function for all-in-one computation": the BLAKE2b digest of `data` with output
// length nn and key k.  Panics unless 1 <= nn <= 64 and k.len() <= 64 (Blake2b::with_key asserts).
// Unkeyed with nn == 64 it is BLAKE2b-512 = store_spec's `hash_of` (an UNINTERPRETED function of the bytes; that it is
// collision-free is store_spec's separate, listed assumption -- not used in this unit).
#[verifier::external_body]
fn blake2b(nn: usize, k: &[u8], data: &[u8]) -> (r: Blake2bResult)
    requires
        1 <= nn <= 64,
        k@.len() <= 64,
    ensures
        r.digest().len() == nn,
        nn == 64 && k@.len() == 0 ==> r.digest() == hash_of(data@),
{ unimplemented!() }

// ---------- std (R4 / assume_specification) ----------
// std: `[u8] == [u8]` (impl PartialEq for slices): same length and equal elements
#[verifier::external_body]
fn shim_slice_eq(a: &[u8], b: &[u8]) -> (r: bool)
    ensures r == (a@ == b@),
{ a == b }

// std: `Result::and`: "Returns res if the result is Ok, otherwise returns the Err value of self."
pub assume_specification<T, E, U>[ Result::<T, E>::and::<U> ](a: Result<T, E>, res: Result<U, E>) -> (r: Result<U, E>)
    ensures
        r == (match a { Ok(_) => res, Err(e) => Err(e) });

// std::fmt::Formatter as a text sink (R3).  `out()` = the characters written to it so far.
#[verifier::external_body]
struct Formatter { _p: () }

impl Formatter {
    uninterp spec fn out(&self) -> Seq<char>;
    // the underlying sink cannot fail (std: `impl fmt::Write for String` never returns Err -- the buffer `to_string` uses)
    uninterp spec fn sink_ok(&self) -> bool;
}

// R5: `write!(f, "{}", s)` with s: String (the macro takes its arguments by reference).  std: the format string "{}" has
// no flags, `Display for String` writes the string (`f.pad(s)` with an empty spec = `write_str`).  Ok: exactly the text
// was appended.  Err: the underlying sink failed (a prefix of the text may have been written).
#[verifier::external_body]
fn shim_write_display_string(f: &mut Formatter, s: &String) -> (r: std::fmt::Result)
    ensures
        r is Ok ==> final(f).out() == old(f).out() + s@,
        old(f).sink_ok() ==> r is Ok,
        final(f).sink_ok() == old(f).sink_ok(),
{ unimplemented!() /* write!(f, "{}", s) */ }
