// ---- timeconv_spec: instants as integer nanoseconds since the Unix epoch; shims for jiff / filetime ----
// Written from the C01 statement ("modification times (including sub-second and pre-1970 values)" round-trip),
// doc/format.md ("mtime: integer seconds past the Unix epoch; mtime_nanos: fractional part of the mtime, as
// nanoseconds") and the documentation of jiff 0.2.19 / filetime 0.2.26 -- not from src/index/entry.rs.

spec const NPS: int = 1_000_000_000;          // nanoseconds per second

// jiff 0.2.19 util/t.rs: UnixSeconds = ri64<-377705116800 - SpanZoneOffset::MIN, 253402300799 - SpanZoneOffset::MAX>
// (SpanZoneOffset = +-93599 s), i.e. -9999-01-02T01:59:59Z ..= 9999-12-30T22:00:00Z (+ .999999999).
spec const TS_MIN_S: int = -377705023201;
spec const TS_MAX_S: int = 253402207200;

spec fn ts_in_range(t: int) -> bool { TS_MIN_S * NPS <= t <= TS_MAX_S * NPS + 999_999_999 }

// Truncation toward zero (Verus `/` and `%` on int are Euclidean, so negatives are mirrored).
spec fn trunc_sec(t: int) -> int { if t >= 0 { t / NPS } else { -((-t) / NPS) } }
spec fn trunc_sub(t: int) -> int { if t >= 0 { t % NPS } else { -((-t) % NPS) } }

// The instant an index entry's (mtime, mtime_nanos) pair denotes, per format.md: whole seconds past the epoch plus
// a FRACTIONAL PART (a fraction is non-negative and below one second) -- i.e. the floor representation.
spec fn entry_instant(mtime: i64, mtime_nanos: u32) -> int { mtime as int * NPS + mtime_nanos as int }

// What a correct backup can have written for a time jiff can represent.
spec fn entry_time_wf(mtime: i64, mtime_nanos: u32) -> bool {
    mtime_nanos < NPS && ts_in_range(entry_instant(mtime, mtime_nanos))
}

proof fn lemma_trunc_parts(t: int)
    ensures
        trunc_sec(t) * NPS + trunc_sub(t) == t,
        -NPS < trunc_sub(t) < NPS,
        t >= 0 ==> trunc_sec(t) >= 0 && trunc_sub(t) >= 0,
        t <= 0 ==> trunc_sec(t) <= 0 && trunc_sub(t) <= 0,
        ts_in_range(t) ==> TS_MIN_S <= trunc_sec(t) <= TS_MAX_S,
{
}

// ---- jiff::Timestamp (R3 shim type; ASSUMED contracts, jiff 0.2.19 documentation) ----
// A Timestamp is an instant with nanosecond precision inside jiff's range.  `total_nanos` is its only view.
#[verifier::external_body]
struct Timestamp { _opaque: () }

struct JiffError { _opaque: () }

impl std::fmt::Debug for JiffError {
    #[verifier::external_body]
    fn fmt(&self, f: &mut std::fmt::Formatter<'_>) -> std::fmt::Result { Ok(()) }
}

impl Clone for Timestamp {
    #[verifier::external_body]
    fn clone(&self) -> (r: Self)
        ensures r == *self,
    { unimplemented!() }
}
impl Copy for Timestamp {}

impl Timestamp {
    uninterp spec fn total_nanos(&self) -> int;

    // jiff: "The Unix epoch represented as a timestamp ... corresponds to 0 nanoseconds."
    // (not used by the pinned tree; present so that a fix of IndexEntry::mtime that falls back to it is decidable)
    #[verifier::external_body]
    exec const UNIX_EPOCH: Timestamp
        ensures Self::UNIX_EPOCH.total_nanos() == 0,
    { Timestamp { _opaque: () } }

    // jiff: "Returns this timestamp as a number of seconds since the Unix epoch. This only returns the number of
    // whole seconds [fractional part truncated]"; second and nanosecond always have the same sign (or are zero).
    #[verifier::external_body]
    fn as_second(self) -> (r: i64)
        ensures
            r == trunc_sec(self.total_nanos()),
            ts_in_range(self.total_nanos()),
    { unimplemented!() }

    // jiff: "Returns the fractional second component of this timestamp in units of nanoseconds ... guaranteed to
    // be in the range -999_999_999..=999_999_999", NEGATIVE for instants before the epoch
    // (doc example: Timestamp::new(-2, 999_999_999) has as_second() == -1, subsec_nanosecond() == -1).
    #[verifier::external_body]
    fn subsec_nanosecond(self) -> (r: i32)
        ensures
            r == trunc_sub(self.total_nanos()),
            ts_in_range(self.total_nanos()),
    { unimplemented!() }

    // jiff: `Timestamp::now()`: the current system time.  AMBIENT input: nothing is known about the result but its
    // range.  `min`/`max` (std `Ord`): the smaller / larger instant.  None of the three is used by the pinned tree;
    // they are here so that an edit which mixes the wall clock into a conversion (C17: the archive is a function of
    // source and history only) is decided by the function's contract instead of leaving the unit unposable.
    #[verifier::external_body]
    fn now() -> (r: Timestamp)
        ensures ts_in_range(r.total_nanos()),
    { unimplemented!() }

    #[verifier::external_body]
    fn min(self, other: Timestamp) -> (r: Timestamp)
        ensures
            r == self || r == other,
            r.total_nanos() <= self.total_nanos() && r.total_nanos() <= other.total_nanos(),
    { unimplemented!() }

    #[verifier::external_body]
    fn max(self, other: Timestamp) -> (r: Timestamp)
        ensures
            r == self || r == other,
            r.total_nanos() >= self.total_nanos() && r.total_nanos() >= other.total_nanos(),
    { unimplemented!() }

    // jiff: Timestamp::new(second, nanosecond): Err unless second is in UnixSeconds' range and nanosecond in
    // -999_999_999..=999_999_999, and Err for (MIN second, negative nanosecond); mixed signs are accepted and
    // normalised, the instant is second + nanosecond/1e9.
    #[verifier::external_body]
    fn new(second: i64, nanosecond: i32) -> (r: Result<Timestamp, JiffError>)
        ensures
            r.is_ok() <==> (TS_MIN_S <= second <= TS_MAX_S && -NPS < nanosecond < NPS
                            && !(second == TS_MIN_S && nanosecond < 0)),
            r.is_ok() ==> r.unwrap().total_nanos() == second as int * NPS + nanosecond as int,
    { unimplemented!() }
}

// ---- filetime::FileTime (R3 shim type; ASSUMED contract, filetime 0.2.26) ----
// "Creates a new instance of FileTime with a number of seconds and nanoseconds relative to the Unix epoch ...
//  Negative seconds represent times before the Unix epoch ... nanos always count forwards in time";
// `nanoseconds()`: "The returned value is always less than one billion".  On unix the pair is handed unchanged to
// utimensat as (tv_sec, tv_nsec), which rejects tv_nsec >= 1e9 with EINVAL.  Hence: the type is only meaningful
// for nanos < 1e9 (stated as the shim's precondition) and then denotes seconds*1e9 + nanos.
#[verifier::external_body]
struct FileTime { _opaque: () }

impl FileTime {
    uninterp spec fn sec(&self) -> int;
    uninterp spec fn nanos(&self) -> int;
    spec fn instant(&self) -> int { self.sec() * NPS + self.nanos() }

    #[verifier::external_body]
    fn from_unix_time(seconds: i64, nanos: u32) -> (r: FileTime)
        requires
            nanos < NPS, //# C01.filetime_nanos_below_one_second
        ensures
            r.sec() == seconds,
            r.nanos() == nanos,
    { unimplemented!() }
}

// std: `i32::cast_unsigned` (stable 1.87): "Returns the bit pattern of self reinterpreted as an unsigned integer
// of the same size" -- two's complement.
pub assume_specification[ i32::cast_unsigned ](x: i32) -> (r: u32)
    ensures
        x >= 0 ==> r as int == x as int,
        x < 0 ==> r as int == x as int + 0x1_0000_0000;

// std: `i32::unsigned_abs`: "Computes the absolute value of self without any wrapping or panicking."
// (not used by the pinned tree; present so that a tempting wrong repair of the negative sub-second case is decided)
pub assume_specification[ i32::unsigned_abs ](x: i32) -> (r: u32)
    ensures
        r as int == (if x >= 0 { x as int } else { -(x as int) });

// std: `i32::try_from(u32)` succeeds exactly when the value fits (vstd specifies the other integer pairs).
pub assume_specification[ <i32 as TryFrom<u32>>::try_from ](x: u32) -> (r: Result<i32, <i32 as TryFrom<u32>>::Error>)
    ensures
        r.is_ok() <==> x <= i32::MAX,
        r.is_ok() ==> r.unwrap() as int == x as int;

// std: `Result::unwrap_or` ("Returns the contained Ok value or a provided default").
pub assume_specification<T, E>[ Result::<T, E>::unwrap_or ](x: Result<T, E>, d: T) -> (r: T)
    ensures r == (match x { Ok(t) => t, Err(_) => d });

// `assert_eq!(a, b)` (std macro; Verus cannot take its expansion: core::panicking::assert_failed): the obligation
// "the two operands are equal" is kept as the precondition of this call-site shim (R4).
fn shim_assert_eq(a: bool, b: bool)
    requires
        a == b, //# C01.metadata_from_assert_cannot_fail
{
}
