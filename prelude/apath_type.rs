//@@ include apath_spec.rs

//@@ type src/apath.rs | struct Apath
//@@ end

impl Apath {
    pub closed spec fn view(&self) -> Seq<char> { self.0@ }
    spec fn bytes(&self) -> Seq<u8> { bytes_of(self@) }
    spec fn comps(&self) -> Seq<Seq<u8>> { str_comps(self@) }
    spec fn valid(&self) -> bool { valid_bytes(self.bytes()) }
}

// a < b in the documented apath order
spec fn apath_lt(a: Apath, b: Apath) -> bool { doc_cmp(a.comps(), b.comps()) == Ordering::Less }
