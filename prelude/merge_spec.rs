// ---- merge_spec: what a diff must report (C18), written from the property statement, not from the code ----
// "reports exactly the paths that were added, removed, or whose kind, size, mtime (files), mode, owner or link
//  target differ, each with the right classification"
//@@ include apath_spec.rs
//@@ include order_lemmas.rs

// An entry of either tree, as the statement sees it.
ghost struct EntryView {
    apath: Seq<char>,
    kind: Kind,
    mtime: int,                   // nanoseconds since the epoch
    size: Option<u64>,
    target: Option<Seq<char>>,
    mode: Option<u32>,
    user: Option<Seq<char>>,
    group: Option<Seq<char>>,
}

// The listed attributes, clause by clause: kind; owner; mode; for files size and mtime; for symlinks the target.
spec fn same_kind(a: EntryView, b: EntryView) -> bool { a.kind == b.kind }
spec fn same_owner(a: EntryView, b: EntryView) -> bool { a.user == b.user && a.group == b.group }
spec fn same_mode(a: EntryView, b: EntryView) -> bool { a.mode == b.mode }
spec fn same_size(a: EntryView, b: EntryView) -> bool { a.size == b.size }
spec fn same_mtime(a: EntryView, b: EntryView) -> bool { a.mtime == b.mtime }
spec fn same_target(a: EntryView, b: EntryView) -> bool { a.target == b.target }

spec fn no_listed_difference(a: EntryView, b: EntryView) -> bool {
    &&& same_kind(a, b)
    &&& same_owner(a, b)
    &&& same_mode(a, b)
    &&& (a.kind == Kind::File ==> same_size(a, b) && same_mtime(a, b))
    &&& (a.kind == Kind::Symlink ==> same_target(a, b))
}

// What is reported about one side (EntryMetadata): per-kind data, mtime, owner, mode.
ghost enum KindMetaView { File { size: u64 }, Dir, Symlink { target: Seq<char> } }
ghost struct MetaView { kind: KindMetaView, mtime: int, user: Option<Seq<char>>, group: Option<Seq<char>>, mode: Option<u32> }

// The entry can be described at all: its kind is known and the per-kind datum is there.  This is the exact
// condition under which `KindMetadata::from` does not panic (C10).
spec fn meta_ok(e: EntryView) -> bool {
    &&& e.kind != Kind::Unknown
    &&& (e.kind == Kind::File ==> e.size.is_some())
    &&& (e.kind == Kind::Symlink ==> e.target.is_some())
}

spec fn kind_meta_of(e: EntryView) -> KindMetaView
    recommends meta_ok(e)
{
    match e.kind {
        Kind::File => KindMetaView::File { size: e.size.unwrap() },
        Kind::Symlink => KindMetaView::Symlink { target: e.target.unwrap() },
        _ => KindMetaView::Dir,
    }
}

spec fn meta_of(e: EntryView) -> MetaView
    recommends meta_ok(e)
{
    MetaView { kind: kind_meta_of(e), mtime: e.mtime, user: e.user, group: e.group, mode: e.mode }
}

ghost enum ChangeView {
    Unchanged { m: MetaView },
    Added { m: MetaView },
    Deleted { m: MetaView },
    Changed { old: MetaView, new: MetaView },
}
ghost struct EntryChangeView { apath: Seq<char>, change: ChangeView }

// One aligned position of the two trees: the path is on the left (old/stored) side only, on the right (new/live)
// side only, or on both.
ghost enum MatchedView { Left(EntryView), Right(EntryView), Both(EntryView, EntryView) }

// The right classification: only-old = removed, only-new = added, both = unchanged iff no listed difference.
spec fn report_of(m: MatchedView) -> EntryChangeView {
    match m {
        MatchedView::Left(a) => EntryChangeView { apath: a.apath, change: ChangeView::Deleted { m: meta_of(a) } },
        MatchedView::Right(b) => EntryChangeView { apath: b.apath, change: ChangeView::Added { m: meta_of(b) } },
        MatchedView::Both(a, b) => EntryChangeView {
            apath: a.apath,
            change: if no_listed_difference(a, b) { ChangeView::Unchanged { m: meta_of(a) } }
                    else { ChangeView::Changed { old: meta_of(a), new: meta_of(b) } },
        },
    }
}

spec fn matched_meta_ok(m: MatchedView) -> bool {
    match m {
        MatchedView::Left(a) => meta_ok(a),
        MatchedView::Right(b) => meta_ok(b),
        MatchedView::Both(a, b) => meta_ok(a) && meta_ok(b),
    }
}
// `Both` really pairs one path with itself
spec fn matched_paired(m: MatchedView) -> bool {
    match m {
        MatchedView::Both(a, b) => a.apath == b.apath,
        _ => true,
    }
}

// The stream `diff` yields for a sequence of aligned positions: every report, or only those that are not
// "unchanged".
spec fn diff_reports(ms: Seq<MatchedView>, include_unchanged: bool) -> Seq<EntryChangeView>
    decreases ms.len()
{
    if ms.len() == 0 { Seq::empty() }
    else {
        let r = report_of(ms[0]);
        let rest = diff_reports(ms.skip(1), include_unchanged);
        if include_unchanged || !(r.change is Unchanged) { seq![r] + rest } else { rest }
    }
}

