// ---- blockdir_spec: vocabulary of the block directory (doc/format.md "Data block directory") ----
// Builds on store_spec.rs (hash_of, has_block, blk, blen, Address).
//
// format.md: "Blocks are stored in files whose name is the BLAKE2b hash of their uncompressed content, in
// lowercase hex, inside a subdirectory named by the first three hex digits; the file holds the Snappy
// compression of the content."

// ---------- hex (the `hex` crate's lowercase encoding, written out; nothing assumed about its shape) ----------
spec fn hex_digit(n: int) -> u8 { if n < 10 { (0x30 + n) as u8 } else { (0x57 + n) as u8 } }

spec fn hex(b: Seq<u8>) -> Seq<u8> {
    Seq::new(2 * b.len(), |i: int| if i % 2 == 0 { hex_digit(b[i / 2] as int / 16) } else { hex_digit(b[i / 2] as int % 16) })
}

spec fn ascii(b: Seq<u8>) -> bool { forall|i: int| 0 <= i < b.len() ==> #[trigger] b[i] < 0x80 }

proof fn lemma_hex_shape(b: Seq<u8>)
    ensures hex(b).len() == 2 * b.len(), ascii(hex(b)),
{
    assert forall|i: int| 0 <= i < hex(b).len() implies #[trigger] hex(b)[i] < 0x80 by {
        let v = b[i / 2] as int;
        assert(0 <= v / 16 < 16 && 0 <= v % 16 < 16);
    }
}

// bytes of a Rust string (String@ / str@ are Seq<char>)
spec fn sbytes(s: Seq<char>) -> Seq<u8> { vstd::utf8::encode_utf8(s) }

const SLASH_B: u8 = 0x2f;

// ---------- where a block lives ----------
// C13: "stored under the first three hex digits of, and named by, the hash"
spec fn subdir_spec(h: Seq<u8>) -> Seq<u8> { hex(h).subrange(0, 3) }

spec fn block_path_spec(h: Seq<u8>) -> Seq<u8> { subdir_spec(h).push(SLASH_B) + hex(h) }

// ---------- Snappy (crate `snap`, raw format) ----------
// snappy(d): the bytes snap's encoder produces for d (deterministic).
uninterp spec fn snappy(d: Seq<u8>) -> Seq<u8>;

// snappy_decodes(c, d): snap's decoder accepts c and yields d.
uninterp spec fn snappy_decodes(c: Seq<u8>, d: Seq<u8>) -> bool;

// ASSUMPTION (DESIGN 5, `snap`): decompress(compress(x)) == x.
#[verifier::external_body]
proof fn axiom_snappy_roundtrip(d: Seq<u8>)
    ensures snappy_decodes(snappy(d), d),
{ }

// ---------- storage knowledge (DESIGN 4.3: monotone, only ever used positively) ----------
// stored(p, c): the file at transport-relative path p has been observed (written successfully with, or read
// back as) content c, and nothing has deleted it since (side condition of 4.3: no concurrent deletion).
uninterp spec fn stored(path: Seq<u8>, content: Seq<u8>) -> bool;

// DEFINITION of has_block for this unit (listed as an assumption): "a block file under the name of hash_of(d)
// whose content Snappy-decodes to d is a stored block".  This is format.md's notion of a present block and
// it is exactly what an independent reader checks.
#[verifier::external_body]
proof fn lemma_block_stored(h: Seq<u8>, c: Seq<u8>, d: Seq<u8>)
    requires stored(block_path_spec(h), c), snappy_decodes(c, d), hash_of(d) == h,
    ensures has_block(h),
{ }

// looked_up_absent(h): a lookup of h in the present-set has returned `false` (an event that happened;
// positive knowledge, never negated).  A block write is allowed only with this in hand: C07 "block written only
// if not already present", C14 "dedup before write".
uninterp spec fn looked_up_absent(h: Seq<u8>) -> bool;

// what may be handed to `write` on the block directory's transport: Snappy of some d, at the path named by d's hash,
// after d's hash has been looked up and found absent
spec fn is_block_write(d: Seq<u8>, path: Seq<u8>, bytes: Seq<u8>) -> bool {
    path == block_path_spec(hash_of(d)) && bytes == snappy(d) && looked_up_absent(hash_of(d))
}

spec fn block_write_ok(path: Seq<u8>, bytes: Seq<u8>) -> bool {
    exists|d: Seq<u8>| #[trigger] is_block_write(d, path, bytes)
}

spec fn is_subdir_create(h: Seq<u8>, path: Seq<u8>) -> bool {
    path == subdir_spec(h) && looked_up_absent(h)
}

spec fn subdir_create_ok(path: Seq<u8>) -> bool {
    exists|h: Seq<u8>| #[trigger] is_subdir_create(h, path)
}

// ---------- deletion plan (DESIGN 4.4; established by the gc unit) ----------
// deletable_block(h): the caller's plan allows removing block h (h is not referenced by any kept band, not a dry run).
uninterp spec fn deletable_block(h: Seq<u8>) -> bool;

// forgotten(h): h has been dropped from the present-set and from the content cache (events that happened).
uninterp spec fn forgotten_in_set(h: Seq<u8>) -> bool;
uninterp spec fn forgotten_in_cache(h: Seq<u8>) -> bool;

spec fn is_block_removal(h: Seq<u8>, path: Seq<u8>) -> bool {
    path == block_path_spec(h) && deletable_block(h) && forgotten_in_set(h) && forgotten_in_cache(h)
}

spec fn removal_ok(path: Seq<u8>) -> bool {
    exists|h: Seq<u8>| #[trigger] is_block_removal(h, path)
}
