// ---- combiner_shims: ASSUMED contracts of the foreign types the small-file combiner and the large-file
// splitter touch (DESIGN.md R3/R4).  Everything here is trusted; keep it minimal and faithful. ----

// `src_bytes(p)` = the bytes the backup reads for path p (C01 vocabulary).  It is tied to the reader by the
// preconditions of push_file / store_file_content: "the reader's remaining stream is src_bytes(p)".
uninterp spec fn src_bytes(apath: Seq<char>) -> Seq<u8>;

// std::mem::take: returns the old value, leaves Default::default() behind (std documentation).
pub assume_specification<T: Default>[std::mem::take](x: &mut T) -> (r: T)
    ensures r == *old(x), call_ensures(<T as Default>::default, (), *final(x));

// ---- bytes 1.x: BytesMut / Bytes seen as byte sequences ----
#[verifier::external_body]
struct BytesMut { _p: () }   // bytes::BytesMut

#[verifier::external_body]
struct Bytes { _p: () }      // bytes::Bytes

impl BytesMut {
    pub uninterp spec fn view(&self) -> Seq<u8>;

    // bytes: `BytesMut::new()` is empty.
    #[verifier::external_body]
    fn new() -> (r: BytesMut)
        ensures r@.len() == 0,
    { unimplemented!() }  // bytes::BytesMut::new()

    // bytes: `BytesMut::zeroed(len)`: len zero bytes.
    #[verifier::external_body]
    fn zeroed(len: usize) -> (r: BytesMut)
        ensures r@ == Seq::new(len as nat, |i: int| 0u8),
    { unimplemented!() }  // bytes::BytesMut::zeroed(len)

    #[verifier::external_body]
    fn len(&self) -> (r: usize)
        ensures r as int == self@.len(),
    { unimplemented!() }  // self.len()

    #[verifier::external_body]
    fn is_empty(&self) -> (r: bool)
        ensures r == (self@.len() == 0),
    { unimplemented!() }  // self.is_empty()

    // bytes: `resize(new_len, value)`: truncates, or extends with `value`.  (Memory exhaustion is not modelled.)
    #[verifier::external_body]
    fn resize(&mut self, new_len: usize, value: u8)
        ensures
            final(self)@.len() == new_len,
            new_len <= old(self)@.len() ==> final(self)@ == old(self)@.take(new_len as int),
            new_len >= old(self)@.len() ==> final(self)@.take(old(self)@.len() as int) == old(self)@
                && forall|i: int| old(self)@.len() <= i < new_len ==> final(self)@[i] == value,
    { unimplemented!() }  // self.resize(new_len, value)

    // bytes: `truncate(len)`: keeps the first len bytes; no effect if len is greater than the current length.
    #[verifier::external_body]
    fn truncate(&mut self, len: usize)
        ensures
            final(self)@ == (if len <= old(self)@.len() { old(self)@.take(len as int) } else { old(self)@ }),
    { unimplemented!() }  // self.truncate(len)

    // bytes: `freeze()`: same bytes, immutable.
    #[verifier::external_body]
    fn freeze(self) -> (r: Bytes)
        ensures r@ == self@,
    { unimplemented!() }  // self.freeze()

    // R4 redirection of the slice expression `&mut B[start..]` (IndexMut<RangeFrom<usize>> through DerefMut to
    // [u8]): the tail of the buffer as a mutable slice; bytes before `start` are untouched, the length cannot
    // change through the slice.  std panics iff start > len: that is the precondition.
    #[verifier::external_body]
    fn tail_mut(&mut self, start: usize) -> (r: &mut [u8])
        requires
            start <= old(self)@.len(),
        ensures
            r@ == old(self)@.skip(start as int),
            final(r)@.len() == r@.len(),
            final(self)@ == old(self)@.take(start as int) + final(r)@,
    { unimplemented!() }  // &mut self[start..]
}

// bytes: `BytesMut::default()` is `BytesMut::new()`.
impl Default for BytesMut {
    #[verifier::external_body]
    fn default() -> (r: BytesMut)
        ensures r@.len() == 0,
    { unimplemented!() }  // bytes::BytesMut::new()
}

impl Bytes {
    pub uninterp spec fn view(&self) -> Seq<u8>;

    #[verifier::external_body]
    fn len(&self) -> (r: usize)
        ensures r as int == self@.len(),
    { unimplemented!() }  // self.len()
}

// ---- `&mut dyn Read` -> `&mut SourceReader`: a byte stream with a ghost rest-of-stream ----
#[verifier::external_body]
struct IoError { _p: () }   // std::io::Error

#[verifier::external_body]
struct SourceReader { _p: () }   // dyn std::io::Read

impl SourceReader {
    // the bytes not yet consumed
    uninterp spec fn remaining(&self) -> Seq<u8>;

    // ASSUMPTION (DESIGN 5, "read on a regular file fills the buffer unless EOF"): true of a reader over a
    // regular file.  Only `FileCombiner::push_file`, which does a single read, requires it;
    // `read_with_retries` / `store_file_content` are proved without it.
    uninterp spec fn full_reads(&self) -> bool;

    // std::io::Read::read: Ok(n) with 0 <= n <= buf.len(): the next n bytes of the stream are now buf[..n];
    // nothing is said about buf[n..] (the callers truncate it away); n == 0 only at end of stream or for an
    // empty buf.  Err: nothing is known about the stream position (no contract uses the stream after an Err).
    #[verifier::external_body]
    fn read(&mut self, buf: &mut [u8]) -> (r: std::result::Result<usize, IoError>)
        ensures
            final(buf)@.len() == old(buf)@.len(),
            final(self).full_reads() == old(self).full_reads(),
            r matches Ok(n) ==> {
                &&& n <= old(buf)@.len()
                &&& n <= old(self).remaining().len()
                &&& final(buf)@.take(n as int) == old(self).remaining().take(n as int)
                &&& final(self).remaining() == old(self).remaining().skip(n as int)
                &&& (n == 0 ==> old(buf)@.len() == 0 || old(self).remaining().len() == 0)
                &&& (old(self).full_reads() ==> n == old(buf)@.len() || n == old(self).remaining().len())
            },
    { unimplemented!() }  // self.read(buf)
}

// ---- crate::Error: only the variant constructed in these functions, plus "any other" ----
#[verifier::external_body]
struct ErrPath { _p: () }   // std::path::PathBuf

enum Error {
    ReadSourceFile { path: ErrPath, source: IoError },
    Other,
}

type Result<T> = std::result::Result<T, Error>;

// R5: the error payload `apath.to_string().into()` (a PathBuf for the message) is opaque: no contract reads it.
#[verifier::external_body]
fn shim_err_path(apath: &Apath) -> (r: ErrPath)
{ unimplemented!() }  // apath.to_string().into()

// ---- Arc<dyn Monitor>: opaque progress/counter sink (its count() calls are dropped by R1) ----
#[verifier::external_body]
struct MonitorArc { _p: () }   // Arc<dyn Monitor>

impl Clone for MonitorArc {
    #[verifier::external_body]
    fn clone(&self) -> (r: Self)
    { unimplemented!() }  // Arc::clone
}

// ---- BackupStats: pure counters; no contract of this unit mentions one, so the type is opaque and the
// `stats.x += 1` statements are dropped (R1). ----
#[verifier::external_body]
struct BackupStats { _p: () }

impl Default for BackupStats {
    #[verifier::external_body]
    fn default() -> (r: BackupStats)
    { unimplemented!() }  // derive(Default): all counters zero
}

// ---- BlockDir: ASSUMED contract of store_or_deduplicate (proved in unit `blockdir`):
// Ok(h) => h is the hash of the data and a block named h is stored.  On Err nothing is known. ----
#[verifier::external_body]
struct BlockDir { _p: () }

impl BlockDir {
    #[verifier::external_body]
    async fn store_or_deduplicate(&self, block_data: Bytes, stats: &mut BackupStats, monitor: MonitorArc) -> (r: Result<BlockHash>)
        ensures
            r matches Ok(h) ==> h@ == hash_of(block_data@) && has_block(h@),
    { unimplemented!() }
}

// ---- R6: `Y.drain(..)`: removes every element of Y and yields them in order ----
#[verifier::external_body]
#[verifier::reject_recursive_types(T)]
struct DrainAll<T> { inner: std::vec::IntoIter<T> }

impl<T> DrainAll<T> {
    uninterp spec fn rem(&self) -> Seq<T>;

    #[verifier::external_body]
    fn next(&mut self) -> (r: Option<T>)
        ensures
            old(self).rem().len() == 0 ==> r.is_none() && final(self).rem() == old(self).rem(),
            old(self).rem().len() > 0 ==> r == Some(old(self).rem()[0]) && final(self).rem() == old(self).rem().skip(1),
    { self.inner.next() }
}

#[verifier::external_body]
fn shim_drain_all<T>(v: &mut Vec<T>) -> (it: DrainAll<T>)
    ensures
        final(v)@.len() == 0,
        it.rem() == old(v)@,
{ DrainAll { inner: std::mem::take(v).into_iter() } }

// `Y.drain(n..)`: removes the elements from index n on and yields them in order (std panics iff n > len).
#[verifier::external_body]
fn shim_drain_from<T>(v: &mut Vec<T>, n: usize) -> (it: DrainAll<T>)
    requires
        n <= old(v)@.len(),
    ensures
        final(v)@ == old(v)@.take(n as int),
        it.rem() == old(v)@.skip(n as int),
{ DrainAll { inner: v.split_off(n).into_iter() } }
