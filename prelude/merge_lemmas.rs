// ---- merge_lemmas: merge_spec is THE alignment the C18 statement describes (pure spec math) ----------------------
// For two streams that are strictly increasing in the apath order (C11), merge_spec(a, b)
//   (1) lists strictly increasing paths                      -> every path is reported once, in order;
//   (2) projects back to a on the old side and to b on the new side -> no entry of either tree is lost,
//       duplicated or reordered;
//   (3) pairs two entries only if they are the same path.
// Hence a path is reported `Both` iff it is in both trees: by (2) each of its two entries sits at some position, by
// (1) two positions with the same path are the same position, and one position holding an old and a new entry
// is a `Both`; conversely (3).  `Left`/`Right` are then exactly the paths in one tree only.
// requires merge_types.rs, order_lemmas.rs

spec fn m_path<AE: EntryTrait, BE: EntryTrait>(m: MatchedEntries<AE, BE>) -> Apath {
    match m {
        MatchedEntries::Left(a) => a.s_apath(),
        MatchedEntries::Right(b) => b.s_apath(),
        MatchedEntries::Both(a, _) => a.s_apath(),
    }
}
spec fn merged_increasing<AE: EntryTrait, BE: EntryTrait>(ms: Seq<MatchedEntries<AE, BE>>) -> bool {
    forall|i: int, j: int| 0 <= i < j < ms.len() ==> apath_lt(m_path(#[trigger] ms[i]), m_path(#[trigger] ms[j]))
}
spec fn below<E: EntryTrait>(p: Apath, s: Seq<E>) -> bool {
    forall|i: int| 0 <= i < s.len() ==> apath_lt(p, (#[trigger] s[i]).s_apath())
}
spec fn below_merged<AE: EntryTrait, BE: EntryTrait>(p: Apath, ms: Seq<MatchedEntries<AE, BE>>) -> bool {
    forall|k: int| 0 <= k < ms.len() ==> apath_lt(p, m_path(#[trigger] ms[k]))
}
spec fn old_side<AE: EntryTrait, BE: EntryTrait>(ms: Seq<MatchedEntries<AE, BE>>) -> Seq<AE>
    decreases ms.len()
{
    if ms.len() == 0 { Seq::empty() } else {
        match ms[0] {
            MatchedEntries::Left(a) => seq![a] + old_side(ms.skip(1)),
            MatchedEntries::Both(a, _) => seq![a] + old_side(ms.skip(1)),
            MatchedEntries::Right(_) => old_side(ms.skip(1)),
        }
    }
}
spec fn new_side<AE: EntryTrait, BE: EntryTrait>(ms: Seq<MatchedEntries<AE, BE>>) -> Seq<BE>
    decreases ms.len()
{
    if ms.len() == 0 { Seq::empty() } else {
        match ms[0] {
            MatchedEntries::Right(b) => seq![b] + new_side(ms.skip(1)),
            MatchedEntries::Both(_, b) => seq![b] + new_side(ms.skip(1)),
            MatchedEntries::Left(_) => new_side(ms.skip(1)),
        }
    }
}

proof fn lemma_lt_trans(x: Apath, y: Apath, z: Apath)
    requires apath_lt(x, y), apath_lt(y, z) || y@ == z@,
    ensures apath_lt(x, z),
{
    lemma_split_nonempty(bytes_of(x@), SLASH);
    lemma_split_nonempty(bytes_of(y@), SLASH);
    lemma_split_nonempty(bytes_of(z@), SLASH);
    if y@ != z@ { lemma_doc_trans(x.comps(), y.comps(), z.comps()); }
}

// not the same path and not smaller: greater
proof fn lemma_lt_total(x: Apath, y: Apath)
    ensures x@ == y@ || apath_lt(x, y) || apath_lt(y, x),
        !(apath_lt(x, y) && x@ == y@),
{
    lemma_split_nonempty(bytes_of(x@), SLASH);
    lemma_split_nonempty(bytes_of(y@), SLASH);
    lemma_apath_cmp_equal_iff_same_string(x@, y@);
    lemma_doc_flip(x.comps(), y.comps());
}

// the first position of the merge, and what is left of the two streams after it
proof fn lemma_merge_unfold<AE: EntryTrait, BE: EntryTrait>(a: Seq<AE>, b: Seq<BE>)
    ensures a.len() + b.len() == 0 ==> merge_spec(a, b).len() == 0,
      a.len() + b.len() > 0 ==> ({
        let ms = merge_spec(a, b);
        let both = a.len() > 0 && b.len() > 0 && a[0].s_apath()@ == b[0].s_apath()@;
        let left = !both && a.len() > 0 && (b.len() == 0 || apath_lt(a[0].s_apath(), b[0].s_apath()));
        &&& ms.len() > 0
        &&& ms == seq![ms[0]] + ms.skip(1)
        &&& both ==> ms[0] == MatchedEntries::Both(a[0], b[0]) && ms.skip(1) == merge_spec(a.skip(1), b.skip(1))
        &&& left ==> ms[0] == MatchedEntries::<AE, BE>::Left(a[0]) && ms.skip(1) == merge_spec(a.skip(1), b)
        &&& !both && !left ==> b.len() > 0 && ms[0] == MatchedEntries::<AE, BE>::Right(b[0]) && ms.skip(1) == merge_spec(a, b.skip(1))
    }),
{
    reveal(merge_spec);
    let ms = merge_spec(a, b);
    let both = a.len() > 0 && b.len() > 0 && a[0].s_apath()@ == b[0].s_apath()@;
    let left = !both && a.len() > 0 && (b.len() == 0 || apath_lt(a[0].s_apath(), b[0].s_apath()));
    if a.len() + b.len() > 0 { assert(ms =~= seq![ms[0]] + ms.skip(1)); }
    if a.len() + b.len() == 0 {} else if both { assert(ms.skip(1) =~= merge_spec(a.skip(1), b.skip(1))); }
    else if left { assert(ms.skip(1) =~= merge_spec(a.skip(1), b)); }
    else { assert(ms.skip(1) =~= merge_spec(a, b.skip(1))); }
}

proof fn lemma_merge_below<AE: EntryTrait, BE: EntryTrait>(a: Seq<AE>, b: Seq<BE>, p: Apath)
    requires below(p, a), below(p, b),
    ensures below_merged(p, merge_spec(a, b)),
    decreases a.len() + b.len()
{
    if a.len() + b.len() > 0 {
        lemma_merge_unfold(a, b);
        let ms = merge_spec(a, b);
        let (a2, b2) = match ms[0] {
            MatchedEntries::Both(_, _) => (a.skip(1), b.skip(1)),
            MatchedEntries::Left(_) => (a.skip(1), b),
            MatchedEntries::Right(_) => (a, b.skip(1)),
        };
        if a.len() > 0 { assert forall|i: int| 0 <= i < a.skip(1).len() implies apath_lt(p, (#[trigger] a.skip(1)[i]).s_apath()) by { assert(a.skip(1)[i] == a[i + 1]); } }
        if b.len() > 0 { assert forall|i: int| 0 <= i < b.skip(1).len() implies apath_lt(p, (#[trigger] b.skip(1)[i]).s_apath()) by { assert(b.skip(1)[i] == b[i + 1]); } }
        lemma_merge_below(a2, b2, p);
        assert forall|k: int| 0 <= k < ms.len() implies apath_lt(p, m_path(#[trigger] ms[k])) by {
            if k > 0 { assert(ms[k] == ms.skip(1)[k - 1]); }
        }
    } else { lemma_merge_unfold(a, b); }
}

// (1) every path once, in order
proof fn lemma_merge_increasing<AE: EntryTrait, BE: EntryTrait>(a: Seq<AE>, b: Seq<BE>)
    requires increasing(a), increasing(b),
    ensures merged_increasing(merge_spec(a, b)), //# C18.merge_reports_each_path_once_in_order
    decreases a.len() + b.len()
{
    if a.len() + b.len() > 0 {
        lemma_merge_unfold(a, b);
        let ms = merge_spec(a, b);
        let p = m_path(ms[0]);
        lemma_increasing_tail(a);
        lemma_increasing_tail(b);
        let (a2, b2) = match ms[0] {
            MatchedEntries::Both(_, _) => (a.skip(1), b.skip(1)),
            MatchedEntries::Left(_) => (a.skip(1), b),
            MatchedEntries::Right(_) => (a, b.skip(1)),
        };
        // the reported path is below everything that remains on both sides
        if a.len() > 0 && b.len() > 0 { lemma_lt_total(a[0].s_apath(), b[0].s_apath()); }
        assert forall|i: int| 0 <= i < a2.len() implies apath_lt(p, (#[trigger] a2[i]).s_apath()) by {
            match ms[0] {
                MatchedEntries::Both(_, _) => { assert(a2[i] == a[i + 1]); }
                MatchedEntries::Left(_) => { assert(a2[i] == a[i + 1]); }
                MatchedEntries::Right(_) => {
                    // p = b[0] < a[0] <= a[i]
                    if i > 0 { lemma_lt_trans(p, a[0].s_apath(), a[i].s_apath()); }
                }
            }
        }
        assert forall|j: int| 0 <= j < b2.len() implies apath_lt(p, (#[trigger] b2[j]).s_apath()) by {
            match ms[0] {
                MatchedEntries::Both(_, _) => {
                    assert(b2[j] == b[j + 1]);
                    // p = a[0], the same path as b[0] < b[j+1]
                    lemma_split_nonempty(bytes_of(p@), SLASH);
                }
                MatchedEntries::Right(_) => { assert(b2[j] == b[j + 1]); }
                MatchedEntries::Left(_) => {
                    if j > 0 { lemma_lt_trans(p, b[0].s_apath(), b[j].s_apath()); }
                }
            }
        }
        lemma_merge_below(a2, b2, p);
        lemma_merge_increasing(a2, b2);
        let rest = ms.skip(1);
        assert forall|i: int, j: int| 0 <= i < j < ms.len() implies apath_lt(m_path(#[trigger] ms[i]), m_path(#[trigger] ms[j])) by {
            assert(ms[j] == rest[j - 1]);
            if i > 0 { assert(ms[i] == rest[i - 1]); }
        }
    } else { lemma_merge_unfold(a, b); }
}

// (2) nothing lost, duplicated or reordered on either side; (3) pairs are one path
proof fn lemma_merge_projections<AE: EntryTrait, BE: EntryTrait>(a: Seq<AE>, b: Seq<BE>)
    ensures
        old_side(merge_spec(a, b)) == a, //# C18.merge_keeps_every_old_entry
        new_side(merge_spec(a, b)) == b, //# C18.merge_keeps_every_new_entry
        forall|k: int| 0 <= k < merge_spec(a, b).len() ==>
            (#[trigger] merge_spec(a, b)[k] matches MatchedEntries::Both(x, y) ==> x.s_apath()@ == y.s_apath()@), //# C18.merge_pairs_only_the_same_path
    decreases a.len() + b.len()
{
    let ms = merge_spec(a, b);
    if a.len() + b.len() > 0 {
        lemma_merge_unfold(a, b);
        let (a2, b2) = match ms[0] {
            MatchedEntries::Both(_, _) => (a.skip(1), b.skip(1)),
            MatchedEntries::Left(_) => (a.skip(1), b),
            MatchedEntries::Right(_) => (a, b.skip(1)),
        };
        lemma_merge_projections(a2, b2);
        if a.len() > 0 { assert(a =~= seq![a[0]] + a.skip(1)); }
        if b.len() > 0 { assert(b =~= seq![b[0]] + b.skip(1)); }
        assert forall|k: int| 0 <= k < ms.len() implies
            (#[trigger] ms[k] matches MatchedEntries::Both(x, y) ==> x.s_apath()@ == y.s_apath()@) by {
            if k > 0 { assert(ms[k] == ms.skip(1)[k - 1]); }
        }
    } else {
        lemma_merge_unfold(a, b);
        assert(a =~= Seq::empty());
        assert(b =~= Seq::empty());
    }
}

// "Comparing a version with the very tree it was made from reports no change": if the two streams hold the same
// paths and no pair differs in a listed attribute, the diff (without include_unchanged) is empty.
proof fn lemma_same_tree_reports_nothing<AE: EntryTrait, BE: EntryTrait>(a: Seq<AE>, b: Seq<BE>)
    requires
        a.len() == b.len(),
        forall|i: int| 0 <= i < a.len() ==> (#[trigger] a[i]).s_apath()@ == b[i].s_apath()@ && no_listed_difference(ev(&a[i]), ev(&b[i])),
    ensures
        diff_reports(mvs(merge_spec(a, b)), false).len() == 0, //# C18.same_tree_reports_no_change
    decreases a.len()
{
    lemma_merge_unfold(a, b);
    if a.len() > 0 {
        let ms = merge_spec(a, b);
        assert(a[0].s_apath()@ == b[0].s_apath()@);
        let (a2, b2) = (a.skip(1), b.skip(1));
        assert forall|i: int| 0 <= i < a2.len() implies (#[trigger] a2[i]).s_apath()@ == b2[i].s_apath()@
            && no_listed_difference(ev(&a2[i]), ev(&b2[i])) by {
            assert(a2[i] == a[i + 1] && b2[i] == b[i + 1]);
        }
        lemma_same_tree_reports_nothing(a2, b2);
        lemma_reports_step(ms[0], ms.skip(1), false);
    }
}
