// ---- sourcemeta_fs: what `entry_from_fs_metadata`, `SourceTree::{open, open_file, iter_entries}`, `Iter::new` and
// `Apath::below` (src/source.rs, src/apath.rs) touch outside themselves (DESIGN.md R3/R4).  Everything here is an
// ASSUMED contract of std / jiff / uzers code; each item names the real thing it stands for.  No file-system STATE is
// modelled: the file system's answers are uninterpreted functions of the path bytes (ASSUMPTION, DESIGN.md 5, the same
// as walk_shims.rs: "the source tree does not change while it is being backed up").

// ---- lexical path model (unix): std `Path::join` / `PathBuf::push` ----
// copied from restore_fs.rs (text unchanged; textcopy link sourcemeta.path_join)
// "if `r` is absolute it replaces `b`; otherwise a separator is added unless `b` is empty or ends with one".
spec fn path_join(b: Seq<u8>, r: Seq<u8>) -> Seq<u8> {
    if r.len() > 0 && r[0] == SLASH { r }
    else if b.len() == 0 || b.last() == SLASH { b + r }
    else { b.push(SLASH) + r }
}

// copied from restore_fs.rs (text unchanged; textcopy link sourcemeta.lemma_split_leading_sep)
proof fn lemma_split_leading_sep(s: Seq<u8>, sep: u8)
    requires s.len() > 0, s[0] == sep,
    ensures split_spec(s, sep).len() >= 2, split_spec(s, sep)[0].len() == 0,
    decreases s.len()
{
    if s.len() == 1 {
        assert(s.drop_last().len() == 0);
        assert(split_spec(s.drop_last(), sep) =~= seq![Seq::<u8>::empty()]);
    } else {
        let t = s.drop_last();
        assert(t[0] == s[0]);
        lemma_split_leading_sep(t, sep);
    }
}

// a valid apath minus its leading '/' is a RELATIVE path (it is empty or does not start with a separator): joining it
// onto a root can never replace the root.
proof fn lemma_valid_tail_is_relative(a: Seq<u8>)
    requires valid_bytes(a),
    ensures a.skip(1).len() == 0 || a.skip(1)[0] != SLASH,
{
    let r = a.skip(1);
    if r.len() > 0 && r[0] == SLASH {
        lemma_split_leading_sep(r, SLASH);
        let parts = split_spec(r, SLASH);
        assert(comp_ok(parts[0]));
    }
}

// `root` joined with a relative path starts with `root`
proof fn lemma_join_relative_keeps_root(b: Seq<u8>, r: Seq<u8>)
    requires r.len() == 0 || r[0] != SLASH,
    ensures is_byte_prefix(b, path_join(b, r)),
{
    let p = path_join(b, r);
    if b.len() == 0 || b.last() == SLASH {
        assert(p =~= b + r);
        assert(p.subrange(0, b.len() as int) =~= b);
    } else {
        assert(p =~= b.push(SLASH) + r);
        assert(p.subrange(0, b.len() as int) =~= b);
    }
}

// ---- Path / PathBuf (R3): one shim type; the owned/borrowed distinction carries no content here ----
#[verifier::external_body]
struct Path { inner: std::path::PathBuf }
type PathBuf = Path;

impl Path {
    pub uninterp spec fn view(&self) -> Seq<u8>;   // the bytes of the path (unix: OsStr bytes)

    // std: `Path::to_path_buf`: an owned copy
    #[verifier::external_body]
    fn to_path_buf(&self) -> (r: PathBuf)
        ensures r@ == self@,
    { Path { inner: self.inner.clone() } }

    // std: `ToOwned for Path`
    #[verifier::external_body]
    fn to_owned(&self) -> (r: PathBuf)
        ensures r@ == self@,
    { Path { inner: self.inner.clone() } }

    // std: `Path::join`
    #[verifier::external_body]
    fn join<P: PathLike>(&self, p: P) -> (r: PathBuf)
        ensures r@ == path_join(self@, p.pb()),
    { unimplemented!() /* self.inner.join(p) */ }

    // std: `PathBuf::push`: "If path is absolute, it replaces the current path", else appended after a separator
    #[verifier::external_body]
    fn push<P: PathLike>(&mut self, p: P)
        ensures final(self)@ == path_join(old(self)@, p.pb()),
    { unimplemented!() /* self.inner.push(p) */ }

    // std: `Path::read_link` = readlink(2): the text stored in the symbolic link, unresolved
    #[verifier::external_body]
    fn read_link(&self) -> (r: io::Result<PathBuf>)
        ensures
            r matches Ok(t) ==> fs_readlink(self@) == Some(t@),
            r is Err ==> fs_readlink(self@) is None,
    { unimplemented!() /* self.inner.read_link() */ }

    // std: `Path::canonicalize` = realpath(3): absolute, every link RESOLVED.  Not used by the pinned tree; present so
    // that an edit which records the resolved path instead of the link text is decided by the contract.
    #[verifier::external_body]
    fn canonicalize(&self) -> (r: io::Result<PathBuf>)
        ensures
            r matches Ok(t) ==> fs_realpath(self@) == Some(t@),
            r is Err ==> fs_realpath(self@) is None,
    { unimplemented!() /* self.inner.canonicalize() */ }

    // std: `PathBuf::into_os_string`: the same bytes
    #[verifier::external_body]
    fn into_os_string(self) -> (r: OsString)
        ensures r.bytes() == self@,
    { OsString { inner: self.inner.into_os_string() } }
}

impl Clone for Path {
    #[verifier::external_body]
    fn clone(&self) -> (r: Self)
        ensures r@ == self@,
    { Path { inner: self.inner.clone() } }
}

// std `AsRef<Path>` (R3): the things the real code hands to path-taking functions, with the bytes they denote.
// (same shape as restore_fs.rs)
trait PathLike {
    spec fn pb(&self) -> Seq<u8>;
    // AsRef::as_ref: the same path, borrowed
    fn as_ref(&self) -> (r: &Path)
        ensures r@ == self.pb();
}
impl PathLike for Path {
    spec fn pb(&self) -> Seq<u8> { self@ }
    fn as_ref(&self) -> (r: &Path) { self }
}
impl<'a> PathLike for &'a str {
    spec fn pb(&self) -> Seq<u8> { self.spec_bytes() }
    #[verifier::external_body]
    fn as_ref(&self) -> (r: &Path) { unimplemented!() }
}
impl<T: PathLike> PathLike for &T {
    spec fn pb(&self) -> Seq<u8> { (**self).pb() }
    fn as_ref(&self) -> (r: &Path) { (**self).as_ref() }
}

// std `Into<PathBuf>` as used by `Apath::below<R: Into<PathBuf>>(&self, tree_root: R)`: called with `&Path` /
// `&PathBuf` (`impl From<&T: AsRef<OsStr>> for PathBuf`: an owned copy of the same path).
trait IntoPathBuf: Sized {
    spec fn ipb(&self) -> Seq<u8>;
    fn into(self) -> (r: PathBuf)
        ensures r@ == self.ipb();
}
impl<'a> IntoPathBuf for &'a Path {
    spec fn ipb(&self) -> Seq<u8> { (**self)@ }
    #[verifier::external_body]
    fn into(self) -> (r: PathBuf) { Path { inner: self.inner.clone() } }
}
impl IntoPathBuf for Path {
    spec fn ipb(&self) -> Seq<u8> { self@ }
    fn into(self) -> (r: PathBuf) { self }
}

// `Deref<Target = str> for Apath` (src/apath.rs): the string of the apath.
#[verifier::external_body]
fn shim_apath_deref(a: &Apath) -> (r: &str)
    ensures r.spec_bytes() == a.bytes(),
{ a.0.as_str() }

// ---- std::ffi::OsString ----
#[verifier::external_body]
struct OsString { inner: std::ffi::OsString }

// the bytes are valid UTF-8 (walk_shims.rs has the same uninterpreted predicate for `OsStr::to_str`)
uninterp spec fn is_utf8(b: Seq<u8>) -> bool;

impl OsString {
    uninterp spec fn bytes(&self) -> Seq<u8>;

    // std: `OsString::into_string`: "Converts the OsString into a String if it contains valid Unicode data. On failure,
    // ownership of the original OsString is returned."
    #[verifier::external_body]
    fn into_string(self) -> (r: std::result::Result<String, OsString>)
        ensures
            r is Ok <==> is_utf8(self.bytes()),
            r matches Ok(s) ==> bytes_of(s@) == self.bytes(),
            r matches Err(o) ==> o.bytes() == self.bytes(),
    { unimplemented!() /* self.inner.into_string() */ }
}
impl std::fmt::Debug for OsString {
    #[verifier::external_body]
    fn fmt(&self, f: &mut std::fmt::Formatter<'_>) -> std::fmt::Result { Ok(()) }
}

// ---- std::io::Error (R3): opaque ----
mod io {
    use vstd::prelude::*;
    #[verifier::external_body]
    pub(crate) struct Error { inner: std::io::Error }
    pub(crate) type Result<T> = std::result::Result<T, Error>;
    impl std::fmt::Debug for Error {
        #[verifier::external_body]
        fn fmt(&self, f: &mut std::fmt::Formatter<'_>) -> std::fmt::Result { Ok(()) }
    }
}

// ---- conserve::Error (src/errors.rs): the variants src/source.rs constructs, payloads as declared there, plus
// `InvalidMetadata` (declared there, not used by the pinned source.rs) and `Other` for the rest (R5) ----
enum Error {
    UnsupportedSourceKind { path: PathBuf },
    UnsupportedTargetEncoding { path: PathBuf },
    ReadSourceFile { path: PathBuf, source: io::Error },
    IOError { source: io::Error },
    InvalidMetadata { details: String },
    Other,
}

// conserve: `type Result<T> = std::result::Result<T, Error>` (src/errors.rs); the second parameter keeps the
// two-parameter uses of timeconv_spec.rs meaningful
type Result<T, E = Error> = std::result::Result<T, E>;

// conserve::Error has `IOError { #[from] source: io::Error }` (thiserror): `?` and `.into()` wrap the io::Error
// (trait-impl contracts may only mention `pub` spec functions: hence the closed wrappers)
pub closed spec fn io_error_wrapped(e: io::Error) -> Error { Error::IOError { source: e } }

impl From<io::Error> for Error {
    fn from(e: io::Error) -> (r: Error)
        ensures r == io_error_wrapped(e),
    { Error::IOError { source: e } }
}
impl vstd::std_specs::convert::FromSpecImpl<io::Error> for Error {
    open spec fn obeys_from_spec() -> bool { true }
    open spec fn from_spec(e: io::Error) -> Error { io_error_wrapped(e) }
}

// ---- std::time::SystemTime and its conversion to jiff::Timestamp ----
// An instant with nanosecond resolution (unix: a (tv_sec: i64, tv_nsec < 1e9) pair).  `ns()` = nanoseconds since the
// Unix epoch, negative before it.
#[verifier::external_body]
struct SystemTime { _opaque: () }
impl SystemTime {
    pub uninterp spec fn ns(&self) -> int;
}

// jiff 0.2.19 src/timestamp.rs `impl TryFrom<std::time::SystemTime> for Timestamp`:
//     let dur = SignedDuration::system_until(UNIX_EPOCH, system_time)?;  Timestamp::from_duration(dur)
// i.e. THE SAME INSTANT, nanosecond for nanosecond (no rounding, no clamping, no reference to the current time), and
// `Err` exactly when that instant is outside jiff's range -9999-01-02T01:59:59Z ..= 9999-12-30T22:00:00.999999999Z
// (`ts_in_range`, timeconv_spec.rs).  The code `.expect(..)`s the result: see the unit header.
pub closed spec fn jiff_range(t: int) -> bool { ts_in_range(t) }
pub closed spec fn ts_nanos(t: Timestamp) -> int { t.total_nanos() }

impl TryFrom<SystemTime> for Timestamp {
    type Error = JiffError;
    #[verifier::external_body]
    fn try_from(t: SystemTime) -> (r: std::result::Result<Timestamp, JiffError>)
        ensures
            r is Ok <==> jiff_range(t.ns()),
            r matches Ok(ts) ==> ts_nanos(ts) == t.ns(),
    { unimplemented!() }
}
impl vstd::std_specs::convert::TryFromSpecImpl<SystemTime> for Timestamp {
    open spec fn obeys_try_from_spec() -> bool { false }
    uninterp spec fn try_from_spec(v: SystemTime) -> std::result::Result<Self, JiffError>;
}

// ---- std::fs::Metadata (R3): the answer of ONE lstat/stat call, opaque, with `struct stat`-named projections ----
#[derive(Clone, Copy, PartialEq, Eq, Structural)]
enum FsFileType { File, Dir, Symlink, Other }     // st_mode & S_IFMT: S_IFREG, S_IFDIR, S_IFLNK, anything else

#[verifier::external_body]
struct FsMetadata { inner: std::fs::Metadata }

impl FsMetadata {
    pub uninterp spec fn st_type(&self) -> FsFileType;  // the file type
    pub uninterp spec fn st_mtime_ns(&self) -> int;     // st_mtim as nanoseconds since the epoch
    pub uninterp spec fn st_atime_ns(&self) -> int;     // st_atim, likewise
    pub uninterp spec fn st_size(&self) -> u64;         // st_size
    pub uninterp spec fn st_mode(&self) -> u32;         // st_mode (ALL bits: type, setuid/setgid/sticky, rwxrwxrwx)
    pub uninterp spec fn st_uid(&self) -> u32;
    pub uninterp spec fn st_gid(&self) -> u32;

    // std: `Metadata::modified`: "Returns the last modification time listed in this metadata ... corresponds to the
    // mtime field of stat on Unix ... This field might not be available on all platforms, and will return an Err on
    // platforms where it is not available."  ASSUMED: unix, where it is always available.
    #[verifier::external_body]
    fn modified(&self) -> (r: io::Result<SystemTime>)
        ensures
            r is Ok,
            r matches Ok(t) ==> t.ns() == self.st_mtime_ns(),
    { unimplemented!() /* self.inner.modified() */ }

    // std: `Metadata::accessed`: st_atim.  Not used by the pinned tree; present so that an edit which records another
    // of the file's times is decided.
    #[verifier::external_body]
    fn accessed(&self) -> (r: io::Result<SystemTime>)
        ensures
            r is Ok,
            r matches Ok(t) ==> t.ns() == self.st_atime_ns(),
    { unimplemented!() /* self.inner.accessed() */ }

    // std: `Metadata::is_file / is_dir / is_symlink`: tests of the file type, mutually exclusive
    #[verifier::external_body]
    fn is_file(&self) -> (r: bool)
        ensures r == (self.st_type() == FsFileType::File),
    { self.inner.is_file() }

    #[verifier::external_body]
    fn is_dir(&self) -> (r: bool)
        ensures r == (self.st_type() == FsFileType::Dir),
    { self.inner.is_dir() }

    #[verifier::external_body]
    fn is_symlink(&self) -> (r: bool)
        ensures r == (self.st_type() == FsFileType::Symlink),
    { self.inner.is_symlink() }

    // std: `Metadata::len`: "the size of the file, in bytes, this metadata is for"
    #[verifier::external_body]
    fn len(&self) -> (r: u64)
        ensures r == self.st_size(),
    { self.inner.len() }

    // std: `Metadata::permissions`; on unix `Permissions` wraps st_mode unmasked (`PermissionsExt::mode` returns it:
    // `perm_mode`, timeconv_types.rs)
    #[verifier::external_body]
    fn permissions(&self) -> (r: std::fs::Permissions)
        ensures perm_mode(r) == self.st_mode(),
    { self.inner.permissions() }

    // std: `MetadataExt::uid / gid`
    #[verifier::external_body]
    fn uid(&self) -> (r: u32)
        ensures r == self.st_uid(),
    { unimplemented!() }

    #[verifier::external_body]
    fn gid(&self) -> (r: u32)
        ensures r == self.st_gid(),
    { unimplemented!() }
}

// ---- the file system's answers (static tree ASSUMPTION): functions of the path bytes ----
uninterp spec fn fs_lstat(p: Seq<u8>) -> Option<FsMetadata>;        // lstat(2): does NOT follow a final symlink; None = error
uninterp spec fn fs_stat(p: Seq<u8>) -> Option<FsMetadata>;         // stat(2): follows symlinks; None = error
uninterp spec fn fs_readlink(p: Seq<u8>) -> Option<Seq<u8>>;        // readlink(2): the link's text; None = error
uninterp spec fn fs_realpath(p: Seq<u8>) -> Option<Seq<u8>>;        // realpath(3); None = error
uninterp spec fn fs_openable(p: Seq<u8>) -> bool;                   // open(p, O_RDONLY) succeeds
uninterp spec fn file_bytes(p: Seq<u8>) -> Seq<u8>;                 // the bytes a reader of the file at p gets

mod fs {
    use vstd::prelude::*;
    pub(crate) use super::FsMetadata as Metadata;

    // std: `fs::symlink_metadata(path)`: "Queries the metadata about a file without following symlinks" (lstat)
    #[verifier::external_body]
    pub(crate) fn symlink_metadata(path: &super::Path) -> (r: super::io::Result<Metadata>)
        ensures
            r matches Ok(m) ==> super::fs_lstat(path@) == Some(m),
            r is Err ==> super::fs_lstat(path@) is None,
    { unimplemented!() /* std::fs::symlink_metadata(path) */ }

    // std: `fs::metadata(path)`: "This function will traverse symbolic links to query information about the
    // destination file" (stat).  Not used by the pinned tree; present so that an edit which follows links is decided.
    #[verifier::external_body]
    pub(crate) fn metadata(path: &super::Path) -> (r: super::io::Result<Metadata>)
        ensures
            r matches Ok(m) ==> super::fs_stat(path@) == Some(m),
            r is Err ==> super::fs_stat(path@) is None,
    { unimplemented!() /* std::fs::metadata(path) */ }
}

// ---- std::fs::File (R3) ----
#[verifier::external_body]
struct File { inner: std::fs::File }

impl File {
    uninterp spec fn path(&self) -> Seq<u8>;        // the path this handle was opened with
    uninterp spec fn writable(&self) -> bool;       // opened with write access (could alter the source)
    uninterp spec fn remaining(&self) -> Seq<u8>;   // the bytes a reader will get from here on
    uninterp spec fn full_reads(&self) -> bool;     // DESIGN 5: reads on a regular file fill the buffer unless EOF

    // std: `File::open`: "Attempts to open a file in read-only mode."  ASSUMED (DESIGN 5): what is then read are the
    // bytes of the file at that path (static tree), with full reads.
    #[verifier::external_body]
    fn open<P: PathLike>(path: P) -> (r: io::Result<File>)
        ensures
            r is Ok <==> fs_openable(path.pb()),
            r matches Ok(f) ==> f.path() == path.pb() && !f.writable()
                && f.remaining() == file_bytes(path.pb()) && f.full_reads(),
    { unimplemented!() /* std::fs::File::open(path) */ }

    // std: `File::create`: "open a file in write-only mode ... will create a file if it does not exist, and will
    // truncate it if it does."  Not used by the pinned tree; present so that an edit which opens the source for writing
    // is decided.
    #[verifier::external_body]
    fn create<P: PathLike>(path: P) -> (r: io::Result<File>)
        ensures
            r matches Ok(f) ==> f.path() == path.pb() && f.writable(),
    { unimplemented!() /* std::fs::File::create(path) */ }
}

// ---- owner lookup: src/owner/unix.rs `impl From<&fs::Metadata> for Owner` over uzers 0.11.3 `UsersCache` ----
//     user  = get_user_by_uid(mdata.uid()).and_then(|u| u.name().to_str().map(String::from))
//     group = get_group_by_gid(mdata.gid()).and_then(|g| g.name().to_str().map(String::from))
// ASSUMED contract over an UNINTERPRETED user / group database (the name <-> id mapping is outside every contract,
// DESIGN 7 C01 "not covered": uzers): the names are those the database holds for THIS metadata's uid and gid (None:
// no such id, or a name that is not UTF-8).  The body of that `from` is not under contract.
uninterp spec fn user_name(uid: u32) -> Option<Seq<char>>;
uninterp spec fn group_name(gid: u32) -> Option<Seq<char>>;

pub closed spec fn owner_of(m: FsMetadata) -> (Option<Seq<char>>, Option<Seq<char>>) {
    (user_name(m.st_uid()), group_name(m.st_gid()))
}

impl From<&FsMetadata> for Owner {
    #[verifier::external_body]
    fn from(mdata: &FsMetadata) -> (r: Owner)
        ensures r@ == owner_of(*mdata),
    { unimplemented!() }
}
impl vstd::std_specs::convert::FromSpecImpl<&FsMetadata> for Owner {
    open spec fn obeys_from_spec() -> bool { false }
    uninterp spec fn from_spec(v: &FsMetadata) -> Owner;
}

// conserve `Owner::clear` (src/owner.rs, two assignments, not under contract here; not called by the pinned source.rs:
// backup.rs clears the owner when `options.owner` is false -- unit backupwriter).  Present so that an edit which clears
// the owner while the entry is built is decided.
impl Owner {
    #[verifier::external_body]
    fn clear(&mut self)
        ensures final(self)@ == (None::<Seq<char>>, None::<Seq<char>>),
    { self.user = None; self.group = None; }
}

// ---- std: `VecDeque::from([x])` (`[x].into()`): the one-element queue (same as walk_shims.rs) ----
#[verifier::external_body]
fn shim_deque_of1<T>(x: T) -> (r: VecDeque<T>)
    ensures r@ == seq![x],
{ [x].into() }

// ---- conserve::Exclude (src/excludes.rs; its semantics belong to unit `exclude`): opaque here, only handed on ----
#[verifier::external_body]
struct Exclude { _p: () }
impl Exclude {
    uninterp spec fn excluded(&self, a: Seq<char>) -> bool;

    // Exclude::nothing() (as in stitch_types.rs).  Not called by the functions of this unit; present so that an edit
    // which replaces the caller's exclusions is decided.
    #[verifier::external_body]
    fn nothing() -> (r: Exclude)
        ensures forall|a: Seq<char>| !r.excluded(a),
    { unimplemented!() }
}

impl Apath {
    // conserve `Apath::root()` = "/" (as in stitch_types.rs).  Not called by the functions of this unit; present so
    // that an edit which replaces the caller's subtree is decided.
    #[verifier::external_body]
    fn root() -> (r: Apath)
        ensures r@ == seq!['/'], r.bytes() == seq![SLASH],
    { unimplemented!() }
}

// the crate path `jiff::Timestamp` (src/source.rs names the type only through inference; an edit may spell it out)
mod jiff {
    pub(crate) use super::Timestamp;
}

// `Arc<dyn Monitor>` (R3): opaque, unused by `iter_entries`
#[verifier::external_body]
struct MonitorArc { _p: () }
