// ---- blockopen_store: what OPENING the block store needs on top of unit blockdir's vocabulary ----
// Expanded at the ROOT of the unit AFTER store_spec.rs, blockdir_spec.rs, blockdir_shims.rs, blockdir_list.rs
// (none of them is changed).  Everything here is an ADDITION to that type universe:
//   Transport::{dir, chdir, list_dir}         (R3; chdir/dir: same text as prelude/band_shims.rs)
//   ExistsSet::shim_new / BlockCache::shim_new (R9: `RwLock::new(..)` of the two locked fields of BlockDir)
//   BlockDirStats::default                     (#[derive(Default)])
//   iterator adapters on VecIntoIter           (filter / map / collect with CLOSURE contracts: the closures of `subdirs`
//                                               stay in the body and are verified; nothing is lifted)
//   Archive, BLOCK_DIR                         (R11: cut from src/archive.rs)

spec const SLASH: u8 = 0x2f;

// (prelude/band_shims.rs, same text) Transport::chdir (src/transport.rs): "" stays, otherwise components are joined with '/'.
spec fn path_join(d: Seq<u8>, p: Seq<u8>) -> Seq<u8> {
    if p.len() == 0 { d } else if d.len() == 0 { p } else { d + seq![SLASH] + p }
}

// (units/band.vu bridge_select_lemma_path_join_inj, same proof)
proof fn lemma_path_join_inj(d1: Seq<u8>, d2: Seq<u8>, p: Seq<u8>)
    requires p.len() > 0, path_join(d1, p) == path_join(d2, p),
    ensures d1 == d2,
{
    if d1.len() == 0 && d2.len() == 0 {
        assert(d1 =~= d2);
    } else if d1.len() == 0 {
        assert((d2 + seq![SLASH] + p).len() == d2.len() + 1 + p.len());
    } else if d2.len() == 0 {
        assert((d1 + seq![SLASH] + p).len() == d1.len() + 1 + p.len());
    } else {
        let a = d1 + seq![SLASH] + p;
        let b = d2 + seq![SLASH] + p;
        assert(a.len() == d1.len() + 1 + p.len());
        assert(b.len() == d2.len() + 1 + p.len());
        assert forall|i: int| 0 <= i < d1.len() implies d1[i] == d2[i] by {
            assert(a[i] == d1[i]);
            assert(b[i] == d2[i]);
        }
        assert(d1 =~= d2);
    }
}

proof fn lemma_block_dir_name()
    ensures "d".spec_bytes().len() == 1,
{
    reveal_strlit("d");
    vstd::utf8::is_ascii_chars_encode_utf8("d"@);
}

impl Transport {
    // (band_shims.rs, same text) the directory the transport points at, relative to the archive root
    uninterp spec fn dir(&self) -> Seq<u8>;

    // (band_shims.rs, same text)
    #[verifier::external_body]
    fn chdir(&self, relpath: &str) -> (r: Transport)
        ensures r.dir() == path_join(self.dir(), relpath.spec_bytes()),
    { unimplemented!() }

    // Transport::list_dir (src/transport.rs).  `dir_listing(name)` (blockdir_list.rs) is "what list_dir(name) on the block
    // directory's transport yields during this operation": the same words, and the same equation, as the hand-out contract
    // of SubdirTasks::join_next there.  In this unit list_dir is only ever called by `subdirs`, on the transport it was given.
    #[verifier::external_body]
    async fn list_dir(&self, relpath: &str) -> (r: std::result::Result<Vec<DirEntry>, TransportError>)
        ensures
            r matches Ok(v) ==> dir_listing(relpath@) == Ok::<Seq<DirEntry>, ()>(v@),
            r is Err ==> dir_listing(relpath@) is Err,
    { unimplemented!() }
}

// ASSUMED (the same item as band.vu's bridge_select_transport_identified_by_dir, jsonio.vu's B1, bandinfo_model.rs): a
// Transport value is identified by the directory it points at.  Used only by the LINK gc bridge (home()).
#[verifier::external_body]
proof fn bridge_transport_identified_by_dir(t1: Transport, t2: Transport)
    ensures t1.dir() == t2.dir() ==> t1 == t2,
{ }

// ---------- std ----------
// std: `String::len` is the length in BYTES of the UTF-8 encoding (same text as prelude/str_shims.rs)
pub assume_specification[ String::len ](s: &String) -> (r: usize)
    ensures r as int == vstd::utf8::encode_utf8(s@).len();

// `str::bytes` (not used by the pinned tree; present so that an edit which adds a byte-wise test of the directory name is
// JUDGED by the contract instead of leaving the function unposable).  No contract: nothing is known about the result.
#[verifier::external_type_specification]
#[verifier::external_body]
pub struct ExStrBytes<'a>(std::str::Bytes<'a>);

pub assume_specification<'a>[ str::bytes ](s: &'a str) -> std::str::Bytes<'a>;

// `Result::unwrap_or_default` (not used by the pinned tree; present so that an edit which swallows an error this way is
// judged by the contract).  Nothing is said about the Err case.
pub assume_specification<T: Default, E>[ std::result::Result::<T, E>::unwrap_or_default ](res: std::result::Result<T, E>) -> (v: T)
    ensures res matches Ok(t) ==> v == t;

// `impl Default for HashSet` (std: the empty set; no contract is needed -- and a trait method of this unit cannot name the
// private view)
impl Default for HashSet<BlockHash> {
    #[verifier::external_body]
    fn default() -> (r: Self)
    { unimplemented!() }
}

// ---------- R6/R7 in Verus: `Vec::into_iter().filter(f).map(g).filter(h).collect()` with the closures IN PLACE ----------
// The adapters are R3 shims over blockdir_list.rs's `VecIntoIter<T>` (`rem()` = the elements still to come).  Their
// contracts speak about the closure THROUGH ITS OWN verified contract (`f.ensures`): for every spec predicate p that the
// closure's results agree with, the output is the p-filter of the input (std: "Creates an iterator which uses a closure
// to determine if an element should be yielded" -- in order, each element tested once); likewise `map`.  So the unit's
// rewrites only ANNOTATE the closures (type + postcondition); Verus proves each closure body against that annotation.
spec fn filt<T>(s: Seq<T>, p: spec_fn(T) -> bool) -> Seq<T>
    decreases s.len()
{
    if s.len() == 0 { Seq::<T>::empty() }
    else if p(s.last()) { filt(s.drop_last(), p).push(s.last()) }
    else { filt(s.drop_last(), p) }
}

// R6: `V.into_iter()` on an owned Vec (a trait only so that the METHOD-call syntax of the body is kept)
trait R6IntoIter<T>: Sized + View<V = Seq<T>> {
    fn r6_into_iter(self) -> (r: VecIntoIter<T>)
        ensures r.rem() == self@;
}

impl<T> R6IntoIter<T> for Vec<T> {
    #[verifier::external_body]
    fn r6_into_iter(self) -> (r: VecIntoIter<T>)
    { VecIntoIter { inner: self.into_iter() } }
}

impl<T> VecIntoIter<T> {
    // std Iterator::filter
    #[verifier::external_body]
    fn filter<F: FnMut(&T) -> bool>(self, f: F) -> (r: VecIntoIter<T>)
        requires forall|x: &T| #[trigger] f.requires((x,)),
        ensures
            forall|p: spec_fn(T) -> bool| (forall|x: T, b: bool| f.ensures((&x,), b) ==> b == p(x))
                ==> r.rem() == #[trigger] filt(self.rem(), p),
    { unimplemented!() }

    // std Iterator::map
    #[verifier::external_body]
    fn map<U, F: FnMut(T) -> U>(self, f: F) -> (r: VecIntoIter<U>)
        requires forall|x: T| #[trigger] f.requires((x,)),
        ensures
            forall|g: spec_fn(T) -> U| (forall|x: T, y: U| f.ensures((x,), y) ==> y == g(x))
                ==> r.rem() == #[trigger] self.rem().map_values(g),
    { unimplemented!() }

    // std Iterator::collect::<Vec<_>>
    #[verifier::external_body]
    fn collect(self) -> (r: Vec<T>)
        ensures r@ == self.rem(),
    { unimplemented!() }
}

// ---------- the contract vocabulary of `subdirs` (C14 / C05 / C09: EVERY sub-directory of d/ that can hold blocks is
// listed; format.md: a block lives in the sub-directory named by the first three hex digits of its name) ----------
// a name of three BYTES (`String::len`); format.md's names are hex digits, so bytes == characters for every real one
spec fn subdir_name_ok(n: Seq<char>) -> bool { vstd::utf8::encode_utf8(n).len() == 3 }

spec fn is_block_subdir(e: DirEntry) -> bool { e.kind == Kind::Dir && subdir_name_ok(e.name@) }

// the names of the entries that are block sub-directories, in listing order
spec fn subdir_names(es: Seq<DirEntry>) -> Seq<Seq<char>>
    decreases es.len()
{
    if es.len() == 0 { Seq::<Seq<char>>::empty() }
    else if is_block_subdir(es.last()) { subdir_names(es.drop_last()).push(es.last().name@) }
    else { subdir_names(es.drop_last()) }
}

spec fn names_of(v: Seq<String>) -> Seq<Seq<char>> { v.map_values(|s: String| s@) }

// what the recursive definition means, in the property's words: n is returned  <=>  SOME entry of d/ is a directory with
// a three-byte name n.  Nothing that qualifies is dropped (the seeded C14-4 dropped every name containing 'f'), nothing
// else is returned.
proof fn lemma_subdir_names_mem(es: Seq<DirEntry>, n: Seq<char>)
    ensures
        subdir_names(es).contains(n) <==> exists|k: int| 0 <= k < es.len() && is_block_subdir(#[trigger] es[k]) && es[k].name@ == n, //# C14+C05+C09.every_block_subdirectory_is_listed
    decreases es.len()
{
    if es.len() > 0 {
        let init = es.drop_last();
        lemma_subdir_names_mem(init, n);
        if subdir_names(es).contains(n) {
            let s = subdir_names(es);
            let j = choose|j: int| 0 <= j < s.len() && s[j] == n;
            if is_block_subdir(es.last()) && j == s.len() - 1 {
                assert(is_block_subdir(es[es.len() - 1]) && es[es.len() - 1].name@ == n);
            } else {
                assert(subdir_names(init)[j] == n);
                assert(subdir_names(init).contains(n));
                let k = choose|k: int| 0 <= k < init.len() && is_block_subdir(#[trigger] init[k]) && init[k].name@ == n;
                assert(is_block_subdir(es[k]) && es[k].name@ == n);
            }
        }
        if exists|k: int| 0 <= k < es.len() && is_block_subdir(#[trigger] es[k]) && es[k].name@ == n {
            let k = choose|k: int| 0 <= k < es.len() && is_block_subdir(#[trigger] es[k]) && es[k].name@ == n;
            if k < es.len() - 1 {
                assert(is_block_subdir(init[k]) && init[k].name@ == n);
                let j = choose|j: int| 0 <= j < subdir_names(init).len() && subdir_names(init)[j] == n;
                assert(subdir_names(es)[j] == n);
            } else {
                assert(subdir_names(es).last() == n);
            }
        }
    }
}

// the three adapters of `subdirs`, composed, are that definition (pure spec math)
proof fn lemma_subdirs_chain(es: Seq<DirEntry>)
    ensures
        names_of(filt(filt(es, |e: DirEntry| e.kind == Kind::Dir).map_values(|e: DirEntry| e.name), |s: String| subdir_name_ok(s@)))
            == subdir_names(es),
    decreases es.len()
{
    let p1 = |e: DirEntry| e.kind == Kind::Dir;
    let g = |e: DirEntry| e.name;
    let p3 = |s: String| subdir_name_ok(s@);
    if es.len() == 0 {
        assert(filt(es, p1).map_values(g) =~= Seq::<String>::empty());
        assert(names_of(filt(Seq::<String>::empty(), p3)) =~= Seq::<Seq<char>>::empty());
    } else {
        let init = es.drop_last();
        let x = es.last();
        lemma_subdirs_chain(init);
        let a = filt(init, p1);
        if p1(x) {
            assert(filt(es, p1) == a.push(x));
            assert(a.push(x).map_values(g) =~= a.map_values(g).push(x.name));
            let b = a.map_values(g);
            assert(b.push(x.name).drop_last() =~= b);
            if p3(x.name) {
                assert(filt(b.push(x.name), p3) == filt(b, p3).push(x.name));
                assert(names_of(filt(b, p3).push(x.name)) =~= names_of(filt(b, p3)).push(x.name@));
            } else {
                assert(filt(b.push(x.name), p3) == filt(b, p3));
            }
        }
    }
}

// ---------- R9: the two locked fields of BlockDir at construction ----------
// `RwLock::new(set)` for `exists`.  initial(): the set the lock was created with -- what BlockDir::open LISTED.  The lock
// invariant of blockdir_shims.rs (DESIGN 4.5: every member is a stored block; `contains` hands out has_block) must hold
// for the initial content: a labelled precondition.
impl ExistsSet {
    uninterp spec fn initial(&self) -> Set<Seq<u8>>;

    #[verifier::external_body]
    fn shim_new(s: HashSet<BlockHash>) -> (r: ExistsSet)
        requires
            forall|h: Seq<u8>| s@.contains(h) ==> has_block(h), //# C03.present_set_sound,C14.contains_sound
        ensures
            r.initial() == s@,
            forall|h: Seq<u8>| s@.contains(h) ==> r.recorded(h),
    { unimplemented!() }
}

// ASSUMED (the gap named in units/blockdir.vu: "the bridge from the set list_blocks returns to the initial state of the
// `exists` lock invariant"): a file of d/<xxx>/ that is listed with a non-zero length under a well-formed block name IS a
// stored block.  This is an assumption about the ARCHIVE (every writer of d/ is conserve: block files are written whole,
// create-new, under the hash of their content -- C13/C04/C07 of unit blockdir), not about the code of `open`.
#[verifier::external_body]
proof fn axiom_listed_block_is_stored(h: Seq<u8>)
    requires dirs_present(block_subdirs()).contains(h),
    ensures has_block(h),
{ }

// std NonZeroUsize / TryFromIntError (R3, only the conversion `open` makes)
#[verifier::external_body]
struct NonZeroCap { _p: () }

#[verifier::external_body]
struct TryFromIntError { _p: () }

// (`Result::unwrap` needs `E: Debug`)
#[verifier::external]
impl std::fmt::Debug for TryFromIntError {
    fn fmt(&self, f: &mut std::fmt::Formatter<'_>) -> std::fmt::Result { f.write_str("TryFromIntError") }
}

// R4: `N.try_into()` with target NonZeroUsize (`impl TryFrom<usize> for NonZero<usize>`): "Attempts to convert usize to
// NonZero<usize>": Err exactly for 0.  The `.unwrap()` that follows STAYS in the body as a no-panic obligation.
#[verifier::external_body]
fn shim_nonzero_try_from(n: usize) -> (r: std::result::Result<NonZeroCap, TryFromIntError>)
    ensures r is Ok <==> n != 0,
{ unimplemented!() /* n.try_into() */ }

// `RwLock::new(LruCache::new(cap))` for `cache`: lru 0.x "Creates a new LRU Cache that holds at most cap items": empty.
impl BlockCache {
    // this cache was created empty by BlockDir::open (a fact about its creation; the cache is interior-mutable)
    uninterp spec fn created_empty(&self) -> bool;

    #[verifier::external_body]
    fn shim_new(cap: NonZeroCap) -> (r: BlockCache)
        ensures r.created_empty(),
    { unimplemented!() }
}

// `#[derive(Default)]` on BlockDirStats: four `AtomicUsize::default()` = 0
impl OpaqueCounter {
    uninterp spec fn initial_count(&self) -> nat;
}

impl BlockDirStats {
    spec fn all_zero(&self) -> bool {
        self.read_blocks.initial_count() == 0 && self.read_block_compressed_bytes.initial_count() == 0
            && self.read_block_uncompressed_bytes.initial_count() == 0 && self.cache_hit.initial_count() == 0
    }

    #[verifier::external_body]
    fn default() -> (r: BlockDirStats)
        ensures r.all_zero(),
    { unimplemented!() }
}

// ---------- src/archive.rs (R11) ----------
//@@ type src/archive.rs | static BLOCK_DIR
//@ rewrite
static BLOCK_DIR: &str ==> const BLOCK_DIR: &'static str
//@@ end

//@@ type src/archive.rs | struct Archive
//@@ end

// tokio::sync::OnceCell (NOT used by the pinned tree: `Archive` is its transport and nothing else.  Declared so that an
// edit which adds a cell to the handle -- seeded C09-4 cached the BlockDir -- leaves the declaration readable and is then
// judged by lemma_archive_handle_holds_no_state below.)
#[verifier::external_body]
#[verifier::reject_recursive_types(T)]
struct OnceCell<T> { _p: std::marker::PhantomData<T> }

impl<T> Default for OnceCell<T> {
    #[verifier::external_body]
    fn default() -> (r: Self)
    { unimplemented!() }
}

// what "the present-set of this BlockDir is the listing of d/ made by THIS operation" means: the set its `exists` lock
// was created with is the set of non-empty well-named block files of the sub-directories of d/ (blockdir_list.rs:
// dirs_present / block_subdirs, the vocabulary of the header PROVED for list_blocks), and every one of them could be
// listed.  Positive knowledge only (DESIGN 4.3): it is established by BlockDir::open from list_blocks' postcondition and by
// nothing else -- a BlockDir taken out of a cache, a cell or a field has an `initial()` nobody knows anything about.
impl BlockDir {
    spec fn lists_the_store(&self) -> bool {
        self.exists.initial() == dirs_present(block_subdirs()) && all_listed_ok(block_subdirs())
    }

    // BRIDGE vocabulary of LINK gc / validate (`home()` is uninterpreted there): the archive on whose d/ this was opened
    spec fn opened_in(&self, a: Archive) -> bool {
        self.transport.dir() == path_join(a.transport.dir(), "d".spec_bytes())
    }

    spec fn home(&self) -> Archive { choose|a: Archive| self.opened_in(a) }
}
