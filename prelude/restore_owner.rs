// ---- restore_owner: what src/owner/unix.rs `set_owner` talks to (R3) ----
// uzers::UsersCache behind `lazy_static! { static ref USERS_CACHE: Mutex<UsersCache> }`: a name -> id lookup.
// The name <-> id mapping is not covered by any contract (DESIGN 7 C01 "not covered": uzers).
#[verifier::external_body]
struct UsersCache { x: u8 }
#[verifier::external_body]
struct User { x: u8 }
#[verifier::external_body]
struct Group { x: u8 }

// R9: `USERS_CACHE.lock().unwrap()` (lock erasure: the guard is used as the cache itself)
#[verifier::external_body]
fn shim_users_cache() -> (r: UsersCache)
{ unimplemented!() }

// std::mem::drop of the guard (unlock)
#[verifier::external_body]
fn drop(c: UsersCache)
{ }

impl UsersCache {
    #[verifier::external_body]
    fn get_user_by_name(&self, name: &&String) -> (r: Option<User>)
    { unimplemented!() }
    #[verifier::external_body]
    fn get_group_by_name(&self, name: &&String) -> (r: Option<Group>)
    { unimplemented!() }
}
impl User {
    #[verifier::external_body]
    fn uid(&self) -> (r: u32) { unimplemented!() }
}
impl Group {
    #[verifier::external_body]
    fn gid(&self) -> (r: u32) { unimplemented!() }
}
