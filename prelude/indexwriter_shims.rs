// ---- indexwriter_shims: ASSUMED contracts of what IndexWriter calls outside itself (R3, R4, R5) ----
// Every item here is part of the trusted base of unit `indexwriter`.
//@@ include indexwriter_spec.rs
//@@ include indexwriter_sorted_lemmas.rs

// crate::Error / crate::Result: opaque; no contract speaks about the payload of an error.
#[verifier::external_body]
struct Error { _p: () }

type Result<T> = std::result::Result<T, Error>;

// transport::Error, serde_json::Error: opaque, converted by `?` through `From` exactly as in the crate.
#[verifier::external_body]
struct TransportError { _p: () }

#[verifier::external_body]
struct JsonError { _p: () }

impl From<TransportError> for Error {
    #[verifier::external_body]
    fn from(e: TransportError) -> (r: Error) { unimplemented!() }
}

impl From<JsonError> for Error {
    #[verifier::external_body]
    fn from(e: JsonError) -> (r: Error) { unimplemented!() }
}

// bytes::Bytes: an immutable byte string that derefs to [u8]; modelled as Vec<u8>.
type Bytes = Vec<u8>;

//@@ type src/transport.rs | enum WriteMode derive=Clone,Copy
//@@ end

// monitor::Monitor: only used for counters/progress, whose calls are dropped (R1).  Opaque.
trait Monitor {}

// ADDITION to apath_type.rs (kept here because existing prelude files are not edited): the derived
// `PartialEq for Apath` (struct Apath(String)) is string equality.
impl vstd::std_specs::cmp::PartialEqSpecImpl for Apath {
    open spec fn obeys_eq_spec() -> bool { true }
    open spec fn eq_spec(&self, other: &Apath) -> bool { self@ == other@ }
}

impl PartialEq for Apath {
    #[verifier::external_body]
    fn eq(&self, other: &Self) -> (r: bool) { self.0 == other.0 }
}

// `{:?}` of an Apath appears only in the message of an `assert!` (never evaluated on a passing run).
#[verifier::external]
impl std::fmt::Debug for Apath {
    fn fmt(&self, f: &mut std::fmt::Formatter<'_>) -> std::fmt::Result { self.0.fmt(f) }
}

// ---------- Transport, as seen by an IndexWriter: the band's `i/` directory ----------
// The two preconditions of `write` ARE the properties: whatever this unit hands to the write primitive must be
// create-new (C07) and must be a conforming hunk file (C13, C03-O1, C11).  `id()` names the directory pointed at.
#[verifier::external_body]
struct Transport { _p: () }

// permission to remove a path: never granted in this unit
uninterp spec fn removal_granted(path: Seq<u8>) -> bool;

impl Transport {
    uninterp spec fn id(&self) -> int;

    // transport::Transport::create_dir: on Ok the directory exists.
    #[verifier::external_body]
    async fn create_dir(&self, relpath: &str) -> (r: std::result::Result<(), TransportError>)
        requires
            subdir_create_ok(relpath.spec_bytes()), //# C13.only_hunk_subdirs_created
        ensures
            r is Ok ==> dir_created(self.id(), relpath.spec_bytes()),
    { unimplemented!() }

    // DESTRUCTIVE primitives (DESIGN 4.4).  The index writer may not remove anything: `removal_granted` is never
    // established, so a call added by an edit fails this labelled precondition (C07) instead of leaving the unit unposable.
    #[verifier::external_body]
    async fn remove_file(&self, relpath: &str) -> (r: std::result::Result<(), TransportError>)
        requires
            removal_granted(relpath.spec_bytes()), //# C07.backup_never_removes_archive_files
    { unimplemented!() }

    #[verifier::external_body]
    async fn remove_dir_all(&self, relpath: &str) -> (r: std::result::Result<(), TransportError>)
        requires
            removal_granted(relpath.spec_bytes()), //# C07.backup_never_removes_archive_files
    { unimplemented!() }

    // transport::Transport::write: on Ok a file with exactly these bytes exists at relpath.
    #[verifier::external_body]
    async fn write(&self, relpath: &str, content: &[u8], mode: WriteMode) -> (r: std::result::Result<(), TransportError>)
        requires
            mode is CreateNew, //# C07.backup_writes_are_create_new
            hunk_write_ok(self.id(), relpath.spec_bytes(), content@), //# C13.hunk_content,C03.O1_blocks_before_hunk,C11.written_index_sorted
        ensures
            r is Ok ==> file_written(self.id(), relpath.spec_bytes(), content@),
    { unimplemented!() }
}

// ---------- compress::snappy::Compressor ----------
#[verifier::external_body]
struct Compressor { _p: () }

impl Compressor {
    #[verifier::external_body]
    fn new() -> (r: Compressor) { unimplemented!() }

    // snap::raw::Encoder::compress: deterministic function of the input.
    #[verifier::external_body]
    fn compress(&mut self, input: &[u8]) -> (r: Result<Bytes>)
        ensures
            r is Ok ==> r->Ok_0@ == snappy(input@),
    { unimplemented!() }
}

// serde_json::to_vec(&Vec<IndexEntry>): deterministic function of the list (R4 redirection; forwarding body).
#[verifier::external_body]
fn shim_json_to_vec(entries: &Vec<IndexEntry>) -> (r: std::result::Result<Vec<u8>, JsonError>)
    ensures
        r is Ok ==> r->Ok_0@ == json_of(entries@),
{ unimplemented!() /* serde_json::to_vec(entries) */ }

// R5: format!("{:0A}/{:0B}", x, y) and format!("{:0A}", x) for unsigned integers: decimal, zero-padded to the width.
// The widths are taken from the format string in the source by the rewrite, so a changed width changes the contract.
#[verifier::external_body]
fn shim_fmt_pad_slash_pad<const A: usize, const B: usize>(x: u32, y: u32) -> (r: String)
    ensures
        bytes_of(r@) == dec_pad(x as nat, A as nat) + seq![SLASH] + dec_pad(y as nat, B as nat),
{ format!("{:0a$}/{:0b$}", x, y, a = A, b = B) }

// format!("{}/{:0B}", s, y): the text s, a slash, y zero-padded (not used by the pinned tree: the shape a refactoring
// of hunk_relpath through subdir_relpath takes, so that it is decided by the naming clause)
#[verifier::external_body]
fn shim_fmt_str_slash_pad<const B: usize>(x: String, y: u32) -> (r: String)
    ensures
        bytes_of(r@) == bytes_of(x@) + seq![SLASH] + dec_pad(y as nat, B as nat),
{ format!("{}/{:0b$}", x, y, b = B) }

#[verifier::external_body]
fn shim_fmt_pad<const A: usize>(x: u32) -> (r: String)
    ensures
        bytes_of(r@) == dec_pad(x as nat, A as nat),
{ format!("{:0a$}", x, a = A) }

// R4: `<[T]>::sort_unstable_by(compare)` specialised to index entries.  ASSUMED (std documentation): the slice is
// reordered in place (a permutation of the input) so that it is sorted according to `compare`; `compare` must be a
// total order (else std may panic or leave any order) - this is why the first precondition pins the comparator to
// the documented apath order, which order_lemmas.rs proves total.  ASSUMED additionally: `compare` is only invoked
// on two elements at different positions of the slice, so its own precondition need only hold for such pairs.
#[verifier::external_body]
fn shim_sort_unstable_by<F: Fn(&IndexEntry, &IndexEntry) -> Ordering>(v: &mut Vec<IndexEntry>, compare: F)
    requires
        forall|a: &IndexEntry, b: &IndexEntry, o: Ordering| #[trigger] compare.ensures((a, b), o)
            ==> o == doc_cmp(a.apath.comps(), b.apath.comps()), //# C11.hunk_sorted_by_documented_order,C08+C18+C02.stored_index_in_documented_order
        forall|i: int, j: int| 0 <= i < old(v)@.len() && 0 <= j < old(v)@.len() && i != j
            ==> compare.requires((&#[trigger] old(v)@[i], &#[trigger] old(v)@[j])), //# C11.hunk_entries_distinct
    ensures
        final(v)@.to_multiset() == old(v)@.to_multiset(),
        sorted_le(final(v)@),   // i < j ==> compare(v[i], v[j]) != Greater   (indexwriter_sorted_lemmas.rs)
{ v.sort_unstable_by(compare) }

//@@ type src/apath.rs | struct CheckOrder
//@@ end

//@@ type src/apath.rs | struct DebugCheckOrder
//@@ end

//@@ type src/index/mod.rs | const HUNKS_PER_SUBDIR
//@@ end

//@@ type src/index/write.rs | struct IndexWriter
//@ rewrite
apath::DebugCheckOrder ==> DebugCheckOrder
//@@ end
