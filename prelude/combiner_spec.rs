// ---- combiner_spec: the declarations (R11) and the well-formedness vocabulary of FileCombiner ----

//@@ type src/kind.rs | enum Kind
//@@ end

//@@ type src/unix_mode.rs | struct UnixMode
//@@ end

//@@ type src/owner.rs | struct Owner
//@@ end

// jiff::Timestamp: opaque here (the time path is proved in unit `timeconv`).
#[verifier::external_body]
struct Timestamp { _p: () }

//@@ type src/entry.rs | enum KindMeta
//@@ end

// source::Entry (what the tree walk hands to the backup)
//@@ type src/source/entry.rs | struct Entry
//@@ end

impl Entry {
    // `impl From<&KindMeta> for Kind` (src/entry.rs) as a spec function
    spec fn s_kind(&self) -> Kind {
        match self.kind_meta {
            KindMeta::Dir => Kind::Dir,
            KindMeta::File { .. } => Kind::File,
            KindMeta::Symlink { .. } => Kind::Symlink,
            KindMeta::Unknown => Kind::Unknown,
        }
    }
}

//@@ type src/index/entry.rs | struct IndexEntry
//@ rewrite
blockdir::Address ==> Address
//@@ end

impl IndexEntry {
    // ASSUMED here, proved in unit `entry`: the new entry carries the source's path and kind, no addresses,
    // and a target exactly for symlinks.
    #[verifier::external_body]
    fn metadata_from(source: &Entry) -> (r: IndexEntry)
        ensures
            r.apath@ == source.apath@,
            r.kind == source.s_kind(),
            r.addrs@.len() == 0,
            r.target.is_some() == (r.kind == Kind::Symlink),
    { unimplemented!() }
}

//@@ type src/backup.rs | struct QueuedFile
//@@ end

//@@ type src/backup.rs | struct FileCombiner
//@@ end

// A recorded file entry is right: every address lies inside a stored block (C13, C03-O1); the addressed bytes
// are exactly the bytes read for that path (C01/C04), the lengths sum to that size and only files carry
// addresses (C13).
spec fn content_ok(e: IndexEntry) -> bool {
    &&& content_of(e.addrs@) == src_bytes(e.apath@)
    &&& total_len(e.addrs@) == src_bytes(e.apath@).len()
    &&& e.kind == Kind::File
    &&& e.target is None    // only symlinks carry a target (C13)
}

spec fn recorded_ok(e: IndexEntry) -> bool {
    &&& addrs_valid(e.addrs@)
    &&& content_ok(e)
}

spec fn all_in_block(es: Seq<IndexEntry>) -> bool {
    forall|i: int| 0 <= i < es.len() ==> addrs_valid((#[trigger] es[i]).addrs@)
}

spec fn all_content_ok(es: Seq<IndexEntry>) -> bool {
    forall|i: int| 0 <= i < es.len() ==> content_ok(#[trigger] es[i])
}

// A queued file: its bytes sit at [start, start+len) of the combine buffer (stated pointwise:
// buf[start .. start+len] == src_bytes(path)).
spec fn queued_ok(q: QueuedFile, buf: Seq<u8>) -> bool {
    &&& q.len > 0
    &&& q.start + q.len <= buf.len()
    &&& src_bytes(q.entry.apath@).len() == q.len
    &&& forall|k: int| 0 <= k < q.len ==> buf[q.start + k] == #[trigger] src_bytes(q.entry.apath@)[k]
    &&& q.entry.addrs@.len() == 0
    &&& q.entry.kind == Kind::File
    &&& q.entry.target is None
}

// What flush makes of a queued file once the combined block `buf` is stored under hash h = hash_of(buf):
// the same entry with the single address (h, q.start, q.len).
spec fn flushed_from(e: IndexEntry, q: QueuedFile, buf: Seq<u8>) -> bool {
    &&& e.addrs@.len() == 1
    &&& e.addrs@[0].hash@ == hash_of(buf)
    &&& e.addrs@[0].start as int == q.start as int
    &&& e.addrs@[0].len as int == q.len as int
    &&& e == IndexEntry { addrs: e.addrs, ..q.entry }
}

// finished' = finished ++ [flushed(q) for q in queue]
spec fn flush_post(fin0: Seq<IndexEntry>, queue0: Seq<QueuedFile>, buf0: Seq<u8>, fin1: Seq<IndexEntry>) -> bool {
    &&& fin1.len() == fin0.len() + queue0.len()
    &&& fin1.take(fin0.len() as int) == fin0
    &&& forall|i: int| 0 <= i < queue0.len() ==> flushed_from(#[trigger] fin1[fin0.len() + i], queue0[i], buf0)
}

// the paths of the files a combiner holds: recorded ones first, then queued ones
spec fn entry_paths(es: Seq<IndexEntry>) -> Seq<Seq<char>> {
    Seq::new(es.len(), |i: int| es[i].apath@)
}

spec fn queue_paths(qs: Seq<QueuedFile>) -> Seq<Seq<char>> {
    Seq::new(qs.len(), |i: int| qs[i].entry.apath@)
}

spec fn held(fin: Seq<IndexEntry>, qs: Seq<QueuedFile>) -> vstd::multiset::Multiset<Seq<char>> {
    (entry_paths(fin) + queue_paths(qs)).to_multiset()
}

proof fn lemma_held_push_finished(fin: Seq<IndexEntry>, qs: Seq<QueuedFile>, e: IndexEntry)
    ensures held(fin.push(e), qs) == held(fin, qs).insert(e.apath@),
{
    let a = entry_paths(fin);
    let q = queue_paths(qs);
    assert(entry_paths(fin.push(e)) =~= a.push(e.apath@));
    vstd::seq_lib::lemma_multiset_commutative(a.push(e.apath@), q);
    vstd::seq_lib::lemma_multiset_commutative(a, q);
    a.to_multiset_ensures();
    assert(held(fin.push(e), qs) =~= held(fin, qs).insert(e.apath@));
}

proof fn lemma_held_push_queue(fin: Seq<IndexEntry>, qs: Seq<QueuedFile>, x: QueuedFile)
    ensures held(fin, qs.push(x)) == held(fin, qs).insert(x.entry.apath@),
{
    let a = entry_paths(fin);
    let q = queue_paths(qs);
    assert(a + queue_paths(qs.push(x)) =~= (a + q).push(x.entry.apath@));
    (a + q).to_multiset_ensures();
}

// dropping the queue only loses paths
proof fn lemma_held_drop_queue(fin: Seq<IndexEntry>, qs: Seq<QueuedFile>)
    ensures held(fin, Seq::empty()).subset_of(held(fin, qs)),
{
    let a = entry_paths(fin);
    let q = queue_paths(qs);
    assert(a + queue_paths(Seq::empty()) =~= a);
    vstd::seq_lib::lemma_multiset_commutative(a, q);
    assert(held(fin, Seq::empty()).subset_of(held(fin, qs)));
}

proof fn lemma_flush_keeps_paths(fin0: Seq<IndexEntry>, queue0: Seq<QueuedFile>, buf0: Seq<u8>, fin1: Seq<IndexEntry>)
    requires
        flush_post(fin0, queue0, buf0, fin1),
    ensures
        entry_paths(fin1) + queue_paths(Seq::empty()) == entry_paths(fin0) + queue_paths(queue0),
        held(fin1, Seq::empty()) == held(fin0, queue0),
{
    let l = entry_paths(fin1) + queue_paths(Seq::empty());
    let r = entry_paths(fin0) + queue_paths(queue0);
    assert(l.len() == r.len());
    assert forall|i: int| 0 <= i < l.len() implies l[i] == r[i] by {
        if i < fin0.len() {
            assert(fin1.take(fin0.len() as int)[i] == fin1[i]);
        } else {
            let j = i - fin0.len();
            assert(flushed_from(fin1[fin0.len() + j], queue0[j], buf0));
        }
    }
    assert(l =~= r);
}

impl FileCombiner {
    // the files this combiner is responsible for: a successful push adds one, flush and drain lose none
    // (a multiset: an empty file goes straight to `finished`, ahead of the files still queued)
    spec fn held_paths(&self) -> vstd::multiset::Multiset<Seq<char>> {
        held(self.finished@, self.queue@)
    }

    // every queued file's bytes sit where its queue entry says; entries are in order and disjoint
    spec fn wf_queue(&self) -> bool {
        &&& forall|i: int| 0 <= i < self.queue@.len() ==> queued_ok(#[trigger] self.queue@[i], self.buf@)
        &&& forall|i: int, j: int| 0 <= i < j < self.queue@.len() ==>
                (#[trigger] self.queue@[i]).start + self.queue@[i].len <= (#[trigger] self.queue@[j]).start
    }

    // everything except the size bound (flush is entered with a buffer that has reached max_block_size)
    spec fn wf_core(&self) -> bool {
        &&& self.wf_queue()
        &&& all_in_block(self.finished@)
        &&& all_content_ok(self.finished@)
        &&& (self.queue@.len() == 0 ==> self.buf@.len() == 0)
    }

    // nothing queued => nothing buffered; between calls the buffer is below max_block_size (or empty): a
    // combined block overruns max_block_size by at most one small file
    spec fn wf_buf(&self) -> bool {
        &&& (self.queue@.len() == 0 ==> self.buf@.len() == 0)
        &&& (self.buf@.len() == 0 || self.buf@.len() < self.max_block_size)
    }

    spec fn wf(&self) -> bool {
        &&& self.wf_core()
        &&& self.wf_buf()
    }
}

// A single address (hash_of(buf), start, len) with start+len <= |buf| lies in its block and denotes
// buf[start .. start+len].
proof fn lemma_single_addr(a: Address, buf: Seq<u8>)
    requires
        a.hash@ == hash_of(buf),
        has_block(a.hash@),
        a.start + a.len <= buf.len(),
    ensures
        a.in_block(),
        blen(a.hash@) == buf.len(),
        a.slice() == buf.subrange(a.start as int, a.start + a.len),
        content_of(seq![a]) == a.slice(),
        total_len(seq![a]) == a.len,
        addrs_valid(seq![a]),
{
    lemma_blk_of_hash(buf);
    let s = seq![a];
    assert(s.drop_last() =~= Seq::<Address>::empty());
    assert(s.last() == a);
    assert(content_of(s.drop_last()) =~= Seq::<u8>::empty());
    assert(content_of(s) =~= a.slice());
    assert(total_len(s.drop_last()) == 0);
}

// push of one more whole-block address
proof fn lemma_push_addr(addrs: Seq<Address>, a: Address)
    ensures
        content_of(addrs.push(a)) == content_of(addrs) + a.slice(),
        total_len(addrs.push(a)) == total_len(addrs) + a.len,
        addrs_valid(addrs) && a.in_block() ==> addrs_valid(addrs.push(a)),
{
    let s = addrs.push(a);
    assert(s.drop_last() =~= addrs);
    assert(s.last() == a);
}
