// ---- combiner_spec: the declarations (R11) and the well-formedness vocabulary of FileCombiner ----

//@@ type src/kind.rs | enum Kind
//@@ end

//@@ type src/unix_mode.rs | struct UnixMode
//@@ end

//@@ type src/owner.rs | struct Owner
//@@ end

// jiff::Timestamp: opaque here (the time path is proved in unit `timeconv`).
#[verifier::external_body]
struct Timestamp { _p: () }

//@@ type src/entry.rs | enum KindMeta
//@@ end

// source::Entry (what the tree walk hands to the backup)
//@@ type src/source/entry.rs | struct Entry
//@@ end

impl Entry {
    // `impl From<&KindMeta> for Kind` (src/entry.rs) as a spec function
    spec fn s_kind(&self) -> Kind {
        match self.kind_meta {
            KindMeta::Dir => Kind::Dir,
            KindMeta::File { .. } => Kind::File,
            KindMeta::Symlink { .. } => Kind::Symlink,
            KindMeta::Unknown => Kind::Unknown,
        }
    }
}

//@@ type src/index/entry.rs | struct IndexEntry
//@ rewrite
blockdir::Address ==> Address
//@@ end

impl IndexEntry {
    // ASSUMED here, proved in unit `entry`: the new entry carries the source's path and kind, no addresses,
    // and a target exactly for symlinks.
    #[verifier::external_body]
    fn metadata_from(source: &Entry) -> (r: IndexEntry)
        ensures
            r.apath@ == source.apath@,
            r.kind == source.s_kind(),
            r.addrs@.len() == 0,
            r.target.is_some() == (r.kind == Kind::Symlink),
    { unimplemented!() }
}

//@@ type src/backup.rs | struct QueuedFile
//@@ end

//@@ type src/backup.rs | struct FileCombiner
//@@ end

// A recorded file entry is right: every address lies inside a stored block (C13, C03-O1), the addressed bytes
// are exactly the bytes read for that path (C01/C04), the lengths sum to that size and only files carry
// addresses (C13).
spec fn recorded_ok(e: IndexEntry) -> bool {
    &&& addrs_valid(e.addrs@)
    &&& content_of(e.addrs@) == src_bytes(e.apath@)
    &&& total_len(e.addrs@) == src_bytes(e.apath@).len()
    &&& e.kind == Kind::File
}

// A queued file: its bytes sit at [start, start+len) of the combine buffer.
spec fn queued_ok(q: QueuedFile, buf: Seq<u8>) -> bool {
    &&& q.len > 0
    &&& q.start + q.len <= buf.len()
    &&& buf.subrange(q.start as int, q.start + q.len) == src_bytes(q.entry.apath@)
    &&& q.entry.addrs@.len() == 0
    &&& q.entry.kind == Kind::File
}

// What flush makes of a queued file once the combined block `buf` is stored under hash h = hash_of(buf):
// the same entry with the single address (h, q.start, q.len).
spec fn flushed_from(e: IndexEntry, q: QueuedFile, buf: Seq<u8>) -> bool {
    &&& e.addrs@.len() == 1
    &&& e.addrs@[0].hash@ == hash_of(buf)
    &&& e.addrs@[0].start as int == q.start as int
    &&& e.addrs@[0].len as int == q.len as int
    &&& e == IndexEntry { addrs: e.addrs, ..q.entry }
}

// finished' = finished ++ [flushed(q) for q in queue]
spec fn flush_post(fin0: Seq<IndexEntry>, queue0: Seq<QueuedFile>, buf0: Seq<u8>, fin1: Seq<IndexEntry>) -> bool {
    &&& fin1.len() == fin0.len() + queue0.len()
    &&& fin1.take(fin0.len() as int) == fin0
    &&& forall|i: int| 0 <= i < queue0.len() ==> flushed_from(#[trigger] fin1[fin0.len() + i], queue0[i], buf0)
}

impl FileCombiner {
    // everything except the size bound (flush is entered with a buffer that has reached max_block_size)
    spec fn wf_core(&self) -> bool {
        &&& forall|i: int| 0 <= i < self.queue@.len() ==> queued_ok(#[trigger] self.queue@[i], self.buf@)
        &&& forall|i: int, j: int| 0 <= i < j < self.queue@.len() ==>
                (#[trigger] self.queue@[i]).start + self.queue@[i].len <= (#[trigger] self.queue@[j]).start
        &&& forall|i: int| 0 <= i < self.finished@.len() ==> recorded_ok(#[trigger] self.finished@[i])
        &&& (self.queue@.len() == 0 ==> self.buf@.len() == 0)
    }

    // between calls the buffer is below max_block_size (or empty): it overruns by at most one small file
    spec fn wf(&self) -> bool {
        &&& self.wf_core()
        &&& (self.buf@.len() == 0 || self.buf@.len() < self.max_block_size)
    }
}

// A single address (hash_of(buf), start, len) with start+len <= |buf| lies in its block and denotes
// buf[start .. start+len].
proof fn lemma_single_addr(a: Address, buf: Seq<u8>)
    requires
        a.hash@ == hash_of(buf),
        has_block(a.hash@),
        a.start + a.len <= buf.len(),
    ensures
        a.in_block(),
        a.slice() == buf.subrange(a.start as int, a.start + a.len),
        content_of(seq![a]) == a.slice(),
        total_len(seq![a]) == a.len,
        addrs_valid(seq![a]),
{
    lemma_blk_of_hash(buf);
    let s = seq![a];
    assert(s.drop_last() =~= Seq::<Address>::empty());
    assert(s.last() == a);
    assert(content_of(s.drop_last()) =~= Seq::<u8>::empty());
    assert(content_of(s) =~= a.slice());
    assert(total_len(s.drop_last()) == 0);
}

// push of one more whole-block address
proof fn lemma_push_addr(addrs: Seq<Address>, a: Address)
    ensures
        content_of(addrs.push(a)) == content_of(addrs) + a.slice(),
        total_len(addrs.push(a)) == total_len(addrs) + a.len,
        addrs_valid(addrs) && a.in_block() ==> addrs_valid(addrs.push(a)),
{
    let s = addrs.push(a);
    assert(s.drop_last() =~= addrs);
    assert(s.last() == a);
}
