// ---- select_types: vocabulary shared by units `select` and `gc` (DESIGN 3 R3/R5/R7/R11, 4.3) ----
//
// Storage is reached through `&self`, so its state cannot be a field view.  The ghost functions below
// (`Transport::root_band_ids`, `Archive::closed`) denote the archive AS THE CURRENT OPERATION SEES IT WHILE
// IT ONLY READS: one task runs to completion (R2), nobody else writes (C06 is out of reach), and every
// read that consults them happens before the operation's first destructive call (in `delete_bands` all
// listing/closed reads precede `Band::delete`; nothing is read back afterwards).  They are never used to
// describe the state after a deletion.

//@@ type src/bandid.rs | struct BandId derive=Clone,Copy,PartialEq,Eq,Structural
//@@ end

// BandId is a newtype over u32; `#[derive(PartialOrd, Ord)]` on a one-field tuple struct is the order of
// the field (Rust reference, derive semantics) -- so "newer" means "greater number".
impl BandId {
    spec fn n(&self) -> u32 { self.0 }
}

//@@ type src/kind.rs | enum Kind derive=Clone,Copy,PartialEq,Eq,Structural
//@@ end

//@@ type src/transport.rs | struct DirEntry
//@@ end

// R3/R5: crate::Error reduced to the variants whose discriminant a contract of these units distinguishes or
// whose constructor appears in an extracted body; every other variant (and every payload) is `Other`.
enum Error {
    NoCompleteBands,
    ArchiveEmpty,
    DeleteWithIncompleteBackup { band_id: BandId },
    GarbageCollectionLockHeld,
    GarbageCollectionLockHeldDuringBackup,
    // returned by Band::open when the band directory has no BANDHEAD (a band whose creation or deletion was interrupted)
    BandHeadMissing { band_id: BandId },
    Other,
}
type Result<T> = std::result::Result<T, Error>;

// R3: transport::Error; only "some storage error".  `impl From<transport::Error> for Error` is what `?` uses.
#[verifier::external_body]
struct TransportError { _p: () }
type TResult<T> = std::result::Result<T, TransportError>;

// ASSUMED: what `?` does with a transport error (vstd models the conversion in `?` by the uninterpreted
// relation `spec_from`): `From<transport::Error> for Error` builds `Error::Transport{..}`, here `Other`.
mod from_axioms {
    use super::*;
    #[verifier::external_body]
    pub broadcast proof fn axiom_error_from_transport_error(e: TransportError, r: Error)
        requires #[trigger] vstd::std_specs::control_flow::spec_from::<Error, TransportError>(e, r),
        ensures r is Other,
    { }
}
broadcast use from_axioms::axiom_error_from_transport_error;

impl From<TransportError> for Error {
    #[verifier::external_body]
    fn from(e: TransportError) -> (r: Error)
        ensures r is Other,
    { Error::Other }
}

// <BandId as FromStr>::from_str(name).ok()  (src/bandid.rs: "b" followed by a u32)
uninterp spec fn parse_band_id(name: Seq<char>) -> Option<BandId>;

// the band id an archive-root directory entry stands for, exactly as the filter/filter_map pair of
// `list_band_ids` decides it: a directory, not named "d", whose name parses
spec fn entry_band(e: DirEntry) -> Option<BandId> {
    if e.kind == Kind::Dir && e.name@ != "d"@ { parse_band_id(e.name@) } else { None }
}

spec fn listing_band_ids(l: Seq<DirEntry>) -> Set<BandId> {
    l.filter(|e: DirEntry| entry_band(e) is Some).map_values(|e: DirEntry| entry_band(e).unwrap()).to_set()
}

// ascending, NOT strictly: two directory names can parse to the same id ("b0001" and "b1"), see report.
spec fn sorted_ids(s: Seq<BandId>) -> bool {
    forall|i: int, j: int| 0 <= i < j < s.len() ==> s[i].n() <= s[j].n()
}

spec fn is_max_of(m: BandId, s: Set<BandId>) -> bool {
    s.contains(m) && forall|x: BandId| s.contains(x) ==> x.n() <= m.n()
}

// R3: Transport (src/transport.rs), opaque.  Only the projection of the root listing that these units use is
// specified: the band ids named by the directories of the archive root.
#[verifier::external_body]
struct Transport { _p: () }

impl Transport {
    uninterp spec fn root_band_ids(&self) -> Set<BandId>;

    // ASSUMED: a successful listing of the archive root shows exactly the band directories that exist.
    #[verifier::external_body]
    async fn list_dir(&self, relpath: &str) -> (r: TResult<Vec<DirEntry>>)
        ensures
            relpath@.len() == 0 ==> (r matches Ok(v) ==> listing_band_ids(v@) == self.root_band_ids()),
            r is Err ==> self.list_fault(),
    { unimplemented!() }

    // knowledge (positive only): a listing through this transport failed during this operation
    uninterp spec fn list_fault(&self) -> bool;
}

//@@ type src/archive.rs | struct Archive
//@@ end

impl Archive {
    // the band directories present in this archive
    spec fn band_set(&self) -> Set<BandId> { self.transport.root_band_ids() }
    // "BANDTAIL of band id exists" = the version is complete (doc/format.md)
    uninterp spec fn closed(&self, id: BandId) -> bool;

    // DESIGN 4.3 knowledge about THIS operation's storage calls, positive only (each is established only by the shim
    // of the call that failed): the root listing failed / probing band id's BANDTAIL failed / opening band id failed.
    spec fn listing_fault(&self) -> bool { self.transport.list_fault() }
    uninterp spec fn probe_fault(&self, id: BandId) -> bool;
    uninterp spec fn open_failed(&self, id: BandId) -> bool;
    // ... and it failed for a reason OTHER than a missing head (undecodable head, unsupported format, storage fault)
    uninterp spec fn open_fault(&self, id: BandId) -> bool;
    // ... or it failed BECAUSE the band directory has no BANDHEAD
    uninterp spec fn head_missing(&self, id: BandId) -> bool;
}

// R7 (lifted verbatim from `Archive::list_band_ids`; `BLOCK_DIR` is the static "d"):
//     .into_iter()
//     .filter(|entry| entry.name != BLOCK_DIR && entry.kind == Kind::Dir)
//     .filter_map(|entry| entry.name.parse().ok())
//     .sorted()
//     .collect()
// ASSUMED contract (for Verus; a bounded check of this snippet against the contract runs in the thorough tier: r7/run.py):
// the result is sorted ascending and contains exactly the ids that the kept entries parse to.
#[verifier::external_body]
fn r7_band_ids_of_listing(entries: Vec<DirEntry>) -> (r: Vec<BandId>)
    ensures
        sorted_ids(r@),
        r@.to_set() == listing_band_ids(entries@),
{ unimplemented!() }

// R7 (lifted verbatim from `Archive::last_band_id`):   .into_iter().max()
// ASSUMED contract: None iff empty, else an element that no element exceeds.
#[verifier::external_body]
fn r7_max_band_id(v: Vec<BandId>) -> (r: Option<BandId>)
    ensures
        match r {
            None => v@.len() == 0,
            Some(m) => v@.contains(m) && forall|i: int| 0 <= i < v@.len() ==> v@[i].n() <= m.n(),
        },
{ unimplemented!() }

// R6: `for x in V.into_iter().rev()`: the iterator yields the elements of V from last to first.
#[verifier::external_body]
struct RevBandIter { inner: std::iter::Rev<std::vec::IntoIter<BandId>> }

impl RevBandIter {
    uninterp spec fn rem(&self) -> Seq<BandId>;

    #[verifier::external_body]
    fn next(&mut self) -> (r: Option<BandId>)
        ensures
            old(self).rem().len() == 0 ==> r is None && final(self).rem() == old(self).rem(),
            old(self).rem().len() > 0 ==> r == Some(old(self).rem()[0])
                && final(self).rem() == old(self).rem().skip(1),
    { self.inner.next() }
}

#[verifier::external_body]
fn shim_into_iter_rev(v: Vec<BandId>) -> (r: RevBandIter)
    ensures r.rem() == v@.reverse(),
{ RevBandIter { inner: v.into_iter().rev() } }

#[verifier::external_body]
fn shim_into_iter_fwd(v: Vec<BandId>) -> (r: RevBandIter)
    ensures r.rem() == v@,
{ unimplemented!() }

// R3: Band (src/band.rs), opaque; ASSUMED contracts of the three functions used here.
//   open:      Ok(b) => b is band `band_id` of `archive`   (Err: head missing/undecodable/unsupported)
//   is_closed: Ok(c) => c == "BANDTAIL exists"
//   id:        the id it was opened with
#[verifier::external_body]
struct Band { _p: () }

impl Band {
    uninterp spec fn sid(&self) -> BandId;
    uninterp spec fn home(&self) -> Archive;

    #[verifier::external_body]
    async fn open(archive: &Archive, band_id: BandId) -> (r: Result<Band>)
        ensures
            r matches Ok(b) ==> b.sid() == band_id && b.home() == *archive,
            r matches Err(e) ==> e is Other || e is BandHeadMissing,
            r is Err ==> archive.open_failed(band_id),
            r matches Err(e) ==> (e is Other ==> archive.open_fault(band_id)),
            r matches Err(e) ==> (e is BandHeadMissing ==> archive.head_missing(band_id)),
    { unimplemented!() }

    #[verifier::external_body]
    async fn is_closed(&self) -> (r: Result<bool>)
        ensures
            r matches Ok(c) ==> c == self.home().closed(self.sid()),
            r matches Err(e) ==> e is Other,
            r is Err ==> self.home().probe_fault(self.sid()),
    { unimplemented!() }

    #[verifier::external_body]
    fn id(&self) -> (r: BandId)
        ensures r == self.sid(),
    { unimplemented!() }
}

impl Archive {
    // ASSUMED contract of `Archive::band_is_closed` (src/archive.rs: is_file("<band>/BANDTAIL")); PROVED in unit
    // bandinfo with the same probe as Band::is_closed (LINK select.band_is_closed); the last clause is an event token.
    #[verifier::external_body]
    async fn band_is_closed(&self, band_id: BandId) -> (r: Result<bool>)
        ensures
            r matches Ok(c) ==> c == self.closed(band_id),
            r matches Err(e) ==> e is Other,
            r is Err ==> self.probe_fault(band_id),
    { unimplemented!() }
}

proof fn lemma_reverse_desc(v: Seq<BandId>)
    requires sorted_ids(v),
    ensures
        v.reverse().len() == v.len(),
        forall|i: int, j: int| 0 <= i < j < v.len() ==> v.reverse()[i].n() >= v.reverse()[j].n(),
        forall|x: BandId| v.to_set().contains(x) <==> v.reverse().contains(x),
{
    let r = v.reverse();
    assert forall|x: BandId| v.to_set().contains(x) <==> r.contains(x) by {
        if v.contains(x) {
            let i = choose|i: int| 0 <= i < v.len() && v[i] == x;
            assert(r[v.len() - 1 - i] == x);
        }
        if r.contains(x) {
            let i = choose|i: int| 0 <= i < r.len() && r[i] == x;
            assert(v[v.len() - 1 - i] == x);
        }
    }
}
