// ---- indexwriter_order_lemmas: the documented apath order (apath_spec.rs: lex_cmp, seq_lex_cmp, doc_cmp) is a
// total order on non-empty component sequences.  Pure spec mathematics, proved by induction; no assumptions.
// Reusable by other units (stitch, merge, walk, backupwriter): include this file.
//@@ include apath_spec.rs

spec fn ord_flip(o: Ordering) -> Ordering {
    match o { Ordering::Less => Ordering::Greater, Ordering::Equal => Ordering::Equal, Ordering::Greater => Ordering::Less }
}

// ---------------- lex_cmp (bytes) ----------------

proof fn lemma_lex_cmp_refl(a: Seq<u8>)
    ensures lex_cmp(a, a) == Ordering::Equal,
    decreases a.len()
{
    if a.len() > 0 { lemma_lex_cmp_refl(a.skip(1)); }
}

proof fn lemma_lex_cmp_flip(a: Seq<u8>, b: Seq<u8>)
    ensures lex_cmp(b, a) == ord_flip(lex_cmp(a, b)),
    decreases a.len()
{
    if a.len() > 0 && b.len() > 0 && a[0] == b[0] { lemma_lex_cmp_flip(a.skip(1), b.skip(1)); }
}

proof fn lemma_lex_cmp_equal_iff(a: Seq<u8>, b: Seq<u8>)
    ensures (lex_cmp(a, b) == Ordering::Equal) <==> (a == b),
    decreases a.len()
{
    if a == b { lemma_lex_cmp_refl(a); }
    if a.len() > 0 && b.len() > 0 && a[0] == b[0] {
        lemma_lex_cmp_equal_iff(a.skip(1), b.skip(1));
        if a.skip(1) == b.skip(1) {
            assert(a =~= seq![a[0]] + a.skip(1));
            assert(b =~= seq![b[0]] + b.skip(1));
        }
    } else if a.len() == 0 && b.len() == 0 {
        assert(a =~= b);
    }
}

proof fn lemma_lex_cmp_trans(a: Seq<u8>, b: Seq<u8>, c: Seq<u8>)
    requires lex_cmp(a, b) == Ordering::Less, lex_cmp(b, c) == Ordering::Less,
    ensures lex_cmp(a, c) == Ordering::Less,
    decreases a.len()
{
    if a.len() > 0 && b.len() > 0 && c.len() > 0 && a[0] == b[0] && b[0] == c[0] {
        lemma_lex_cmp_trans(a.skip(1), b.skip(1), c.skip(1));
    }
}

// ---------------- seq_lex_cmp (component sequences) ----------------

proof fn lemma_seq_lex_cmp_refl(a: Seq<Seq<u8>>)
    ensures seq_lex_cmp(a, a) == Ordering::Equal,
    decreases a.len()
{
    if a.len() > 0 { lemma_lex_cmp_refl(a[0]); lemma_seq_lex_cmp_refl(a.skip(1)); }
}

proof fn lemma_seq_lex_cmp_flip(a: Seq<Seq<u8>>, b: Seq<Seq<u8>>)
    ensures seq_lex_cmp(b, a) == ord_flip(seq_lex_cmp(a, b)),
    decreases a.len()
{
    if a.len() > 0 && b.len() > 0 {
        lemma_lex_cmp_flip(a[0], b[0]);
        if lex_cmp(a[0], b[0]) == Ordering::Equal { lemma_seq_lex_cmp_flip(a.skip(1), b.skip(1)); }
    }
}

proof fn lemma_seq_lex_cmp_equal_iff(a: Seq<Seq<u8>>, b: Seq<Seq<u8>>)
    ensures (seq_lex_cmp(a, b) == Ordering::Equal) <==> (a == b),
    decreases a.len()
{
    if a == b { lemma_seq_lex_cmp_refl(a); }
    if a.len() > 0 && b.len() > 0 {
        lemma_lex_cmp_equal_iff(a[0], b[0]);
        if lex_cmp(a[0], b[0]) == Ordering::Equal {
            lemma_seq_lex_cmp_equal_iff(a.skip(1), b.skip(1));
            if a.skip(1) == b.skip(1) {
                assert(a =~= seq![a[0]] + a.skip(1));
                assert(b =~= seq![b[0]] + b.skip(1));
            }
        }
    } else if a.len() == 0 && b.len() == 0 {
        assert(a =~= b);
    }
}

proof fn lemma_seq_lex_cmp_trans(a: Seq<Seq<u8>>, b: Seq<Seq<u8>>, c: Seq<Seq<u8>>)
    requires seq_lex_cmp(a, b) == Ordering::Less, seq_lex_cmp(b, c) == Ordering::Less,
    ensures seq_lex_cmp(a, c) == Ordering::Less,
    decreases a.len()
{
    if a.len() > 0 && b.len() > 0 && c.len() > 0 {
        let ab = lex_cmp(a[0], b[0]);
        let bc = lex_cmp(b[0], c[0]);
        lemma_lex_cmp_equal_iff(a[0], b[0]);
        lemma_lex_cmp_equal_iff(b[0], c[0]);
        lemma_lex_cmp_equal_iff(a[0], c[0]);
        if ab == Ordering::Less && bc == Ordering::Less {
            lemma_lex_cmp_trans(a[0], b[0], c[0]);
        } else if ab == Ordering::Equal && bc == Ordering::Equal {
            lemma_seq_lex_cmp_trans(a.skip(1), b.skip(1), c.skip(1));
        }
    }
}

// ---------------- doc_cmp: THE documented apath order ----------------

proof fn lemma_doc_cmp_refl(a: Seq<Seq<u8>>)
    ensures doc_cmp(a, a) == Ordering::Equal,
{
    lemma_seq_lex_cmp_refl(a.drop_last());
    lemma_lex_cmp_refl(a.last());
}

// antisymmetry / totality: exactly one of a<b, a==b, a>b, and swapping the arguments swaps Less and Greater
proof fn lemma_doc_cmp_flip(a: Seq<Seq<u8>>, b: Seq<Seq<u8>>)
    ensures doc_cmp(b, a) == ord_flip(doc_cmp(a, b)),
{
    lemma_seq_lex_cmp_flip(a.drop_last(), b.drop_last());
    lemma_lex_cmp_flip(a.last(), b.last());
}

// equal paths and only equal paths compare equal (on component sequences of real paths: at least one component)
proof fn lemma_doc_cmp_equal_iff(a: Seq<Seq<u8>>, b: Seq<Seq<u8>>)
    requires a.len() >= 1, b.len() >= 1,
    ensures (doc_cmp(a, b) == Ordering::Equal) <==> (a == b),
{
    lemma_seq_lex_cmp_equal_iff(a.drop_last(), b.drop_last());
    lemma_lex_cmp_equal_iff(a.last(), b.last());
    if a == b { lemma_doc_cmp_refl(a); }
    if a.drop_last() == b.drop_last() && a.last() == b.last() {
        assert(a =~= a.drop_last().push(a.last()));
        assert(b =~= b.drop_last().push(b.last()));
    }
}

proof fn lemma_doc_cmp_trans(a: Seq<Seq<u8>>, b: Seq<Seq<u8>>, c: Seq<Seq<u8>>)
    requires doc_cmp(a, b) == Ordering::Less, doc_cmp(b, c) == Ordering::Less,
    ensures doc_cmp(a, c) == Ordering::Less,
{
    let da = a.drop_last();
    let db = b.drop_last();
    let dc = c.drop_last();
    lemma_seq_lex_cmp_equal_iff(da, db);
    lemma_seq_lex_cmp_equal_iff(db, dc);
    lemma_seq_lex_cmp_equal_iff(da, dc);
    let p = seq_lex_cmp(da, db);
    let q = seq_lex_cmp(db, dc);
    if p == Ordering::Less && q == Ordering::Less {
        lemma_seq_lex_cmp_trans(da, db, dc);
    } else if p == Ordering::Equal && q == Ordering::Equal {
        lemma_lex_cmp_trans(a.last(), b.last(), c.last());
    }
}

// a <= b <= c  ==>  a <= c   (<= is "not Greater")
proof fn lemma_doc_cmp_le_trans(a: Seq<Seq<u8>>, b: Seq<Seq<u8>>, c: Seq<Seq<u8>>)
    requires a.len() >= 1, b.len() >= 1, c.len() >= 1,
        doc_cmp(a, b) != Ordering::Greater, doc_cmp(b, c) != Ordering::Greater,
    ensures doc_cmp(a, c) != Ordering::Greater,
{
    lemma_doc_cmp_equal_iff(a, b);
    lemma_doc_cmp_equal_iff(b, c);
    if doc_cmp(a, b) == Ordering::Less && doc_cmp(b, c) == Ordering::Less { lemma_doc_cmp_trans(a, b, c); }
}

// irreflexivity of the strict part
proof fn lemma_doc_cmp_irrefl(a: Seq<Seq<u8>>)
    ensures doc_cmp(a, a) != Ordering::Less,
{
    lemma_doc_cmp_refl(a);
}
