// ---- apath_spec: the documented apath order and validity, over bytes (doc/format.md "Apaths") ----
// Written from doc/format.md and the statements of C11 / C12, not from src/apath.rs.

spec fn bytes_of(s: Seq<char>) -> Seq<u8> { vstd::utf8::encode_utf8(s) }

spec const SLASH: u8 = 0x2f;

// split(s, sep): the components of s between separators (std `str::split` semantics: always >= 1 piece).
spec fn split_spec(s: Seq<u8>, sep: u8) -> Seq<Seq<u8>>
    decreases s.len()
{
    if s.len() == 0 { seq![Seq::<u8>::empty()] }
    else if s.last() == sep { split_spec(s.drop_last(), sep).push(Seq::<u8>::empty()) }
    else {
        let p = split_spec(s.drop_last(), sep);
        p.drop_last().push(p.last().push(s.last()))
    }
}

// byte-wise lexicographic comparison (what `str::cmp` is documented to be)
spec fn lex_cmp(a: Seq<u8>, b: Seq<u8>) -> Ordering
    decreases a.len()
{
    if a.len() == 0 && b.len() == 0 { Ordering::Equal }
    else if a.len() == 0 { Ordering::Less }
    else if b.len() == 0 { Ordering::Greater }
    else if a[0] < b[0] { Ordering::Less }
    else if a[0] > b[0] { Ordering::Greater }
    else { lex_cmp(a.skip(1), b.skip(1)) }
}

// lexicographic comparison of component sequences, each component compared byte-wise
spec fn seq_lex_cmp(a: Seq<Seq<u8>>, b: Seq<Seq<u8>>) -> Ordering
    decreases a.len()
{
    if a.len() == 0 && b.len() == 0 { Ordering::Equal }
    else if a.len() == 0 { Ordering::Less }
    else if b.len() == 0 { Ordering::Greater }
    else if lex_cmp(a[0], b[0]) != Ordering::Equal { lex_cmp(a[0], b[0]) }
    else { seq_lex_cmp(a.skip(1), b.skip(1)) }
}

// THE DOCUMENTED ORDER (format.md): split into a directory part and a non-empty tail; compare the
// directory parts (component by component, byte-wise); if they are the same compare the tails.
spec fn doc_cmp(a: Seq<Seq<u8>>, b: Seq<Seq<u8>>) -> Ordering
    recommends a.len() >= 1, b.len() >= 1
{
    match seq_lex_cmp(a.drop_last(), b.drop_last()) {
        Ordering::Equal => lex_cmp(a.last(), b.last()),
        o => o,
    }
}

// The same order in head-recursive form (convenient for loops); proved equal to doc_cmp below.
spec fn comp_cmp(a: Seq<Seq<u8>>, b: Seq<Seq<u8>>) -> Ordering
    recommends a.len() >= 1, b.len() >= 1
    decreases a.len()
{
    if a.len() <= 1 && b.len() <= 1 { lex_cmp(a[0], b[0]) }
    else if a.len() <= 1 { Ordering::Less }
    else if b.len() <= 1 { Ordering::Greater }
    else if lex_cmp(a[0], b[0]) == Ordering::Equal { comp_cmp(a.skip(1), b.skip(1)) }
    else { lex_cmp(a[0], b[0]) }
}

spec fn str_comps(s: Seq<char>) -> Seq<Seq<u8>> { split_spec(bytes_of(s), SLASH) }

spec fn apath_cmp(a: Seq<char>, b: Seq<char>) -> Ordering { doc_cmp(str_comps(a), str_comps(b)) }

proof fn lemma_split_nonempty(s: Seq<u8>, sep: u8)
    ensures split_spec(s, sep).len() >= 1
    decreases s.len()
{
    if s.len() > 0 { lemma_split_nonempty(s.drop_last(), sep); }
}

proof fn lemma_comp_cmp_is_doc_cmp(a: Seq<Seq<u8>>, b: Seq<Seq<u8>>)
    requires a.len() >= 1, b.len() >= 1,
    ensures comp_cmp(a, b) == doc_cmp(a, b),
    decreases a.len()
{
    if a.len() <= 1 && b.len() <= 1 {
        assert(a.drop_last().len() == 0 && b.drop_last().len() == 0);
        assert(a.last() == a[0] && b.last() == b[0]);
    } else if a.len() <= 1 {
        assert(a.drop_last().len() == 0);
        assert(b.drop_last().len() > 0);
    } else if b.len() <= 1 {
        assert(b.drop_last().len() == 0);
        assert(a.drop_last().len() > 0);
    } else {
        let da = a.drop_last();
        let db = b.drop_last();
        assert(da[0] == a[0] && db[0] == b[0]);
        if lex_cmp(a[0], b[0]) == Ordering::Equal {
            lemma_comp_cmp_is_doc_cmp(a.skip(1), b.skip(1));
            assert(da.skip(1) =~= a.skip(1).drop_last());
            assert(db.skip(1) =~= b.skip(1).drop_last());
            assert(a.skip(1).last() == a.last() && b.skip(1).last() == b.last());
        }
    }
}

// ---- validity (format.md: starts with '/', no component is empty, "." or ".."; C11 adds: no NUL) ----

spec fn comp_ok(c: Seq<u8>) -> bool {
    c.len() > 0 && c != seq![0x2eu8] && c != seq![0x2eu8, 0x2eu8] && !c.contains(0u8)
}

spec fn valid_bytes(s: Seq<u8>) -> bool {
    s.len() >= 1 && s[0] == SLASH && (s.len() == 1 || {
        let parts = split_spec(s.skip(1), SLASH);
        forall|i: int| 0 <= i < parts.len() ==> comp_ok(#[trigger] parts[i])
    })
}

// ---- ancestor-or-self by whole components (C12), characterised on bytes ----

spec fn is_byte_prefix(p: Seq<u8>, s: Seq<u8>) -> bool {
    p.len() <= s.len() && s.subrange(0, p.len() as int) == p
}

// `a` is `s` itself, or lies under `s`: s is the root, or a continues s with a '/' separator.
spec fn under(s: Seq<u8>, a: Seq<u8>) -> bool {
    a == s || s == seq![SLASH] && is_byte_prefix(s, a) || is_byte_prefix(s.push(SLASH), a)
}

proof fn lemma_bytes_injective(x: Seq<char>, y: Seq<char>)
    ensures (bytes_of(x) == bytes_of(y)) <==> (x == y)
{
    vstd::utf8::encode_utf8_decode_utf8(x);
    vstd::utf8::encode_utf8_decode_utf8(y);
}

proof fn lemma_split_last_empty(s: Seq<u8>, sep: u8)
    requires s.len() > 0, s.last() == sep,
    ensures split_spec(s, sep).last().len() == 0,
{
    lemma_split_nonempty(s.drop_last(), sep);
}

// a valid apath longer than "/" does not end with '/'
proof fn lemma_valid_no_trailing_slash(s: Seq<u8>)
    requires valid_bytes(s), s.len() > 1,
    ensures s.last() != SLASH,
{
    if s.last() == SLASH {
        let t = s.skip(1);
        assert(t.last() == s.last());
        lemma_split_last_empty(t, SLASH);
        lemma_split_nonempty(t, SLASH);
        let parts = split_spec(t, SLASH);
        assert(comp_ok(parts[parts.len() - 1]));
    }
}

proof fn lemma_prefix_push(s: Seq<u8>, c: u8, a: Seq<u8>)
    ensures is_byte_prefix(s.push(c), a) <==> (is_byte_prefix(s, a) && s.len() < a.len() && a[s.len() as int] == c)
{
    let p = s.push(c);
    if is_byte_prefix(p, a) {
        assert(a.subrange(0, p.len() as int)[s.len() as int] == p[s.len() as int]);
        assert(a.subrange(0, s.len() as int) =~= a.subrange(0, p.len() as int).subrange(0, s.len() as int));
        assert(p.subrange(0, s.len() as int) =~= s);
    }
    if is_byte_prefix(s, a) && s.len() < a.len() && a[s.len() as int] == c {
        assert(a.subrange(0, p.len() as int) =~= a.subrange(0, s.len() as int).push(c));
    }
}
