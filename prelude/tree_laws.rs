// ---- tree_laws: structural laws of the documented order (C11 statement: "a directory's direct children
// precede its grandchildren and each subtree is contiguous").  Pure spec math over component sequences.
// requires apath_spec.rs, order_lemmas.rs

spec fn is_seq_prefix(k: Seq<Seq<u8>>, x: Seq<Seq<u8>>) -> bool {
    k.len() <= x.len() && x.subrange(0, k.len() as int) == k
}

// the directory part of a path (its components without the final name)
spec fn dir_of(a: Seq<Seq<u8>>) -> Seq<Seq<u8>> { a.drop_last() }

// `a` lies strictly below the directory whose component sequence is k
spec fn below_dir(k: Seq<Seq<u8>>, a: Seq<Seq<u8>>) -> bool { a.len() >= 1 && is_seq_prefix(k, dir_of(a)) }

proof fn lemma_seqlex_prefix_less(p: Seq<Seq<u8>>, q: Seq<Seq<u8>>)
    ensures seq_lex_cmp(p, p + q) == (if q.len() == 0 { Ordering::Equal } else { Ordering::Less }),
    decreases p.len()
{
    if p.len() == 0 {
        assert(p + q =~= q);
    } else {
        lemma_lex_eq(p[0], p[0]);
        assert((p + q)[0] == p[0]);
        assert((p + q).skip(1) =~= p.skip(1) + q);
        lemma_seqlex_prefix_less(p.skip(1), q);
    }
}

// A direct child of directory d precedes everything deeper under d.
proof fn lemma_children_before_grandchildren(d: Seq<Seq<u8>>, x: Seq<u8>, y: Seq<u8>, rest: Seq<Seq<u8>>)
    requires rest.len() >= 1,
    ensures doc_cmp(d.push(x), d.push(y) + rest) == Ordering::Less, //# C11.children_precede_grandchildren
{
    let a = d.push(x);
    let b = d.push(y) + rest;
    assert(a.drop_last() =~= d);
    assert(b.drop_last() =~= d + (seq![y] + rest.drop_last()));
    lemma_seqlex_prefix_less(d, seq![y] + rest.drop_last());
}

proof fn lemma_prefix_sandwich(k: Seq<Seq<u8>>, x: Seq<Seq<u8>>, y: Seq<Seq<u8>>, z: Seq<Seq<u8>>)
    requires is_seq_prefix(k, x), is_seq_prefix(k, z),
        seq_lex_cmp(x, y) != Ordering::Greater, seq_lex_cmp(y, z) != Ordering::Greater,
    ensures is_seq_prefix(k, y),
    decreases k.len()
{
    if k.len() == 0 {
        assert(y.subrange(0, 0) =~= k);
    } else {
        assert(x.subrange(0, k.len() as int)[0] == k[0]);
        assert(z.subrange(0, k.len() as int)[0] == k[0]);
        assert(x[0] == k[0] && z[0] == k[0]);
        // y is non-empty, and its head equals k[0]
        assert(y.len() > 0);
        lemma_lex_eq(x[0], y[0]);
        lemma_lex_eq(y[0], z[0]);
        lemma_lex_flip(x[0], y[0]);
        lemma_lex_flip(y[0], z[0]);
        if lex_cmp(x[0], y[0]) != Ordering::Equal {
            // x[0] < y[0] <= z[0] == x[0]: contradiction
            lemma_lex_trans(x[0], y[0], z[0]);
            lemma_lex_eq(x[0], z[0]);
        }
        assert(y[0] == k[0]);
        assert(x.skip(1).subrange(0, k.len() - 1) =~= x.subrange(0, k.len() as int).skip(1));
        assert(z.skip(1).subrange(0, k.len() - 1) =~= z.subrange(0, k.len() as int).skip(1));
        lemma_prefix_sandwich(k.skip(1), x.skip(1), y.skip(1), z.skip(1));
        assert(y.subrange(0, k.len() as int) =~= seq![y[0]] + y.skip(1).subrange(0, k.len() - 1));
        assert(k =~= seq![k[0]] + k.skip(1));
    }
}

// Everything strictly below a directory forms one contiguous run of the order:
// if a <= b <= c and both a and c lie below directory k, so does b.
proof fn lemma_subtree_contiguous(k: Seq<Seq<u8>>, a: Seq<Seq<u8>>, b: Seq<Seq<u8>>, c: Seq<Seq<u8>>)
    requires a.len() >= 1, b.len() >= 1, c.len() >= 1,
        below_dir(k, a), below_dir(k, c),
        doc_cmp(a, b) != Ordering::Greater, doc_cmp(b, c) != Ordering::Greater,
    ensures below_dir(k, b), //# C11.subtree_contiguous
{
    lemma_prefix_sandwich(k, dir_of(a), dir_of(b), dir_of(c));
}
